#!/bin/bash
# runs every property's quick tier once, one after the other, against /repo (final evidence / sizing)
HERE="$(cd "$(dirname "$0")" && pwd)"
"$HERE/bin/setup"
for p in ${@:-C01 C02 C03 C04 C05 C06 C07 C08 C09 C10 C11 C12 C13 C14 C15 C16 C17 C18 C19 C20}; do
  s=$(date +%s)
  "$HERE/bin/vcheck" $p --tier quick > /tmp/quick_$p.log 2>&1
  rc=$?
  e=$(date +%s)
  echo "$p exit=$rc wall=$((e-s))s $(grep ^SUMMARY /tmp/quick_$p.log | cut -c1-200)"
  grep -E "^(INCONCLUSIVE|VIOLATION|SPURIOUS|HARNESS-ERROR)" /tmp/quick_$p.log | head -5
done
