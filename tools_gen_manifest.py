#!/usr/bin/env python3
"""Regenerates MANIFEST.json from the list of properties that have a check module (vlib/p_cNN.py)."""
import json, os, glob
HERE = os.path.dirname(os.path.abspath(__file__))
props = [json.loads(l) for l in open(os.path.join(HERE, 'properties.jsonl'))]
have = {os.path.basename(p)[2:5].upper() for p in glob.glob(os.path.join(HERE, 'vlib', 'p_c*.py'))}
meta = json.load(open(os.path.join(HERE, 'manifest_meta.json')))
checks, na = [], []
for p in props:
    pid = p['id']
    m = meta.get(pid, {})
    if pid in have and not m.get('not_applicable'):
        checks.append({
            'property_id': pid,
            'quick_cmd': './bin/vcheck %s --tier quick' % pid,
            'thorough_cmd': './bin/vcheck %s --tier thorough' % pid,
            'evidence_file': 'evidence/%s.json' % pid,
            'replay_cmd_template': './bin/vcheck --replay {path}',
            'engine': 'crosshair-z3',
            'level_claimed': {
                'category': 'model_checking',
                'text': m.get('text', ''),
                'design_ref': 'DESIGN.md section 7 (%s)' % pid,
            },
            'level_note': m.get('note', ''),
            'technique': m.get('technique', 'bounded symbolic execution of the real merge code (CrossHair + z3), path-tree exhaustion per cell, counterexamples replayed through the public API'),
        })
    else:
        na.append({'property_id': pid, 'reason': m.get('not_applicable') or 'check not built yet (work in progress in this session)'})
man = {
    'version': 1,
    'setup_cmd': './bin/setup',
    'hooks': {
        'guard': 'BBC_MOSROMGR_VERIF',
        'enable': 'no hooks: all instrumentation is applied from the harness by module attribute assignment; nothing in /repo reads the guard',
        'baseline_off_cmd': 'cd /repo && /venv/bin/python -m pytest -ra -q -p no:cacheprovider --timeout=900 --continue-on-collection-errors',
        'source_commits': [],
        'add_only': True,
    },
    'engines': [{
        'name': 'crosshair-z3',
        'path': 'vlib/',
        'serves_properties': [c['property_id'] for c in checks],
        'kind_free_text': 'CrossHair 0.0.110 symbolic execution of /repo/mosromgr byte code with z3; one PEP316 harness per cell, 16 worker processes; counterexamples replayed concretely through MosFile.from_string before being reported',
    }],
    'checks': checks,
    'not_applicable': na,
    'notes': 'See DESIGN.md. Fix commits and known findings are listed in KNOWN_FINDINGS.txt.',
}
json.dump(man, open(os.path.join(HERE, 'MANIFEST.json'), 'w'), indent=1)
print('checks:', [c['property_id'] for c in checks], 'n/a:', [n['property_id'] for n in na])
