"""C01 - story order after any story-level merge follows the MOS protocol."""
from .cells import Cell, distinct, str_pre
from .h_order import OPS, class_of

PID = 'C01'
LEVEL = 'story'
ASSUMPTIONS = [
    'story IDs of the running order are pairwise distinct and 1 character (quick) / <=2 (thorough) '
    'of printable ASCII; carried stories have IDs different from all existing ones unless the '
    'cell says duplicate',
    'logging disabled (stub S1); set/dict hashing of symbolic strings replaced by a constant hash '
    '(stub S2) in cells that list stories',
]


def bounds(tier):
    return {'stories_N': '0..4' if tier == 'quick' else '0..8', 'sources_k': '<=2' if tier == 'quick' else '<=3',
            'id_length': 1, 'id_alphabet': 'U+0020..U+007E',
            'layout': 'lead in {0,2,4} leading non-story children, one non-story child at a symbolic gap, '
                      '0..1 trailing', 'per_cell_timeout_s': 60 if tier == 'quick' else 600}


def mk(op, N, k=1, tk=None, region=None, rname='', lead=2, trail=0, gap='sym', dup=None, timeout=60,
       harness='order_cell', sk=None, level='story', pid='C01', w=0, extra=None, idlen=1, same=None):
    lvl, has_t, has_src, has_new = OPS[op]
    P = {'op': op, 'N': N, 'k': k, 'lead': lead, 'trail': trail}
    if lvl == 'item':
        P['w'] = w
    if extra:
        P.update(extra)
    sym = [('s%d' % i, 'str') for i in range(N)]
    strs = ['s%d' % i for i in range(N)]
    pre = []
    if lvl == 'item':
        sym += [('p0', 'str'), ('p1', 'str')]
        pre += str_pre(['p0', 'p1'], idlen) + ['p0 != p1']
    if harness == 'order_cell':
        if has_new:
            sym += [('n%d' % i, 'str') for i in range(k)]
            strs += ['n%d' % i for i in range(k)]
        if has_src:
            sym += [('u%d' % i, 'int') for i in range(k)]
            pre += ['0 <= u%d < %d' % (i, N) for i in range(k)]
            pre += distinct(['u%d' % i for i in range(k)])
        if has_t:
            P['tk'] = tk or 'existing'
            if P['tk'] == 'existing':
                sym.append(('t', 'int'))
                pre.append('0 <= t < %d' % N)
                if has_src:
                    pre += ['t != u%d' % i for i in range(k)]
        if same is not None:
            P['same'] = same
        if dup is not None:
            P['dup'] = dup
            sym.append(('d', 'int'))
            pre.append('0 <= d < %d' % N)
    else:  # conserve_cell
        P['sk'] = sk
        P['tk'] = tk
        need_x = False
        for j, kind in enumerate(sk):
            if kind == 'existing':
                sym.append(('u%d' % j, 'int'))
                pre.append('0 <= u%d < %d' % (j, N))
            if kind == 'unknown':
                need_x = True
        if has_t and tk == 'existing':
            sym.append(('t', 'int'))
            pre.append('0 <= t < %d' % N)
        if has_t and tk == 'unknown':
            need_x = True
        if need_x:
            sym.append(('x', 'str'))
            strs.append('x')
    if gap == 'sym':
        sym.append(('g', 'int'))
        pre.append('-1 <= g < %d' % N)
    elif gap is not None:
        P['gap'] = gap
    pre = str_pre(strs, idlen) + distinct(strs) + pre
    if region:
        pre.append(region)
    stubs = ('hash',)
    parts = [pid, op, rname or 'any', 'N%d' % N]
    if idlen != 1:
        parts.append('idlen' + str(idlen))
    if extra and extra.get('prehist'):
        parts.append('after-roReplace')
    if extra and extra.get('prefail'):
        parts.append('after-refused-messages')
    if extra and extra.get('presend'):
        parts.append('after-roStorySend-of-every-story')
    if extra and extra.get('odd_timing'):
        parts.append('other-story-with-free-text-timing')
    if k != 1:
        parts.append('k%d' % k)
    if tk and tk != 'existing':
        parts.append('t-' + tk)
    if sk:
        parts.append('s-' + '+'.join(sk))
    if lead != 2:
        parts.append('lead%d' % lead)
    if trail:
        parts.append('trail%d' % trail)
    if gap != 'sym':
        parts.append('gap-%s' % gap)
    if dup is not None:
        parts.append('dup%d' % dup)
    if same is not None:
        parts.append('keeps-own-id-%d' % same)
    if lvl == 'item' and w:
        parts.append('w%d' % w)
    cost = (N ** (k + (1 if has_t else 0))) * (N + 1 if gap == 'sym' else 1)
    return Cell(pid=pid, cid='/'.join(parts), harness='h_order:' + harness, params=P, sym=sym, pre=pre,
                stubs=stubs, timeout=timeout, cost=cost,
                functions=('%s.merge' % class_of(op),))


def cells(tier):
    T = 60 if tier == 'quick' else 600
    out = []
    Ns = (3,) if tier == 'quick' else (3, 5)
    for N in Ns:
        kk = (1, 2) if tier == 'quick' else (1, 2, 3)
        for op in ('roStoryAppend',):
            for k in kk[:2]:
                out.append(mk(op, N, k=k, trail=1, timeout=T))
        for op in ('roStoryInsert', 'roStoryReplace', 'EAStoryReplace'):
            for k in kk:
                out.append(mk(op, N, k=k, timeout=T))
        if tier == 'quick':
            # carried elements do not fork: three of them are as cheap as two
            for op in ('roStoryInsert', 'roStoryReplace', 'EAStoryReplace', 'EAStoryInsert', 'roStoryAppend'):
                out.append(mk(op, N, k=3, gap=None, timeout=T))
        for k in kk:
            out.append(mk('EAStoryInsert', N, k=k, timeout=T))
            out.append(mk('EAStoryInsert', N, k=k, tk='blank', trail=1, timeout=T))
            out.append(mk('EAStoryInsert', N, k=k, tk='absent', timeout=T))
        # moves: regions by relative position of source and target
        for rname, region in (('src-before-tgt', 'u0 < t'), ('src-after-tgt', 'u0 > t')):
            out.append(mk('roStoryMove', N, region=region, rname=rname, timeout=T))
            out.append(mk('EAStoryMove', N, region=region, rname=rname, timeout=T))
        for tk in ('blank', 'absent'):
            out.append(mk('roStoryMove', N, tk=tk, rname='to-end', trail=1, timeout=T))
            out.append(mk('EAStoryMove', N, tk=tk, rname='to-end', trail=1, timeout=T))
        for k in kk[1:]:
            if N > k:
                out.append(mk('EAStoryMove', N, k=k, rname='multi', timeout=T))
            out.append(mk('EAStoryMove', N, k=k, tk='absent', rname='multi-to-end', timeout=T))
        for k in kk:
            out.append(mk('roStoryDelete', N, k=k, timeout=T))
            out.append(mk('EAStoryDelete', N, k=k, timeout=T))
        out.append(mk('roStorySend', N, timeout=T))
        out.append(mk('roStorySend', N, lead=4, rname='lead4', timeout=T))
        out.append(mk('EAStorySwap', N, k=2, region='u0 < u1', rname='doc-order', timeout=T))
        out.append(mk('EAStorySwap', N, k=2, region='u0 > u1', rname='reverse-order', timeout=T))
        # a skipped duplicate must not displace the other carried stories
        out.append(mk('roStoryInsert', N, k=2, dup=0, rname='dup-first', timeout=T))
        out.append(mk('EAStoryInsert', N, k=2, dup=0, rname='dup-first', timeout=T))
        out.append(mk('EAStoryInsert', N, k=2, dup=1, rname='dup-second', timeout=T))
    # the usual replacement: a new version of the replaced story under its own ID, alone or among others
    for op in ('roStoryReplace', 'EAStoryReplace'):
        for k, j in ((1, 0), (2, 0), (2, 1), (3, 0), (3, 1), (3, 2)):
            out.append(mk(op, 3, k=k, same=j, gap=None, timeout=T))
    # IDs of one or two characters: one ID may be a prefix or suffix of another
    for op, kw in (('roStoryMove', {}), ('EAStoryMove', {'k': 2}), ('roStoryDelete', {'k': 2}), ('roStoryReplace', {}),
                   ('roStorySend', {}), ('EAStorySwap', {'k': 2}), ('roStoryInsert', {})):
        out.append(mk(op, 3, gap=None, idlen='1-2', rname='prefix-ids', timeout=T, **kw))
    # the same from a state reached through a roReplace (new roCreate element, deep-copied children)
    for op, kw in (('roStoryMove', {}), ('EAStoryMove', {'k': 2}), ('roStoryDelete', {}), ('roStoryReplace', {}),
                   ('roStorySend', {}), ('EAStorySwap', {'k': 2}), ('roStoryInsert', {}), ('roStoryAppend', {}),
                   ('EAStoryInsert', {'tk': 'blank'}), ('EAStoryDelete', {'k': 2}), ('EAStoryReplace', {})):
        out.append(mk(op, 3, gap=None, rname='any', timeout=T, extra={'prehist': True}, **kw))
    # the same after a series of refused messages (what a non-strict collection merge leaves behind)
    for op, kw in (('roStoryMove', {}), ('EAStoryMove', {'k': 2}), ('EAStoryMove', {'tk': 'absent'}), ('roStoryDelete', {}),
                   ('roStoryReplace', {}), ('roStorySend', {}), ('EAStorySwap', {'k': 2}), ('roStoryInsert', {}),
                   ('roStoryAppend', {}), ('EAStoryInsert', {'tk': 'blank'}), ('EAStoryDelete', {'k': 2}),
                   ('EAStoryReplace', {})):
        out.append(mk(op, 3, gap=None, rname='any', timeout=T, extra={'prefail': True}, **kw))
    # the same when every story was re-sent by a roStorySend before (stories built by StorySend: roID first)
    for op, kw in (('roStoryMove', {}), ('EAStoryMove', {'k': 2}), ('roStoryDelete', {}), ('roStoryReplace', {}),
                   ('roStorySend', {}), ('EAStorySwap', {'k': 2}), ('roStoryInsert', {}), ('EAStoryDelete', {'k': 2})):
        out.append(mk(op, 3, gap=None, rname='any', timeout=T, extra={'presend': True}, **kw))
    # a running order without any story
    for op, kw in (('roStoryAppend', {'k': 1}), ('roStoryAppend', {'k': 2}), ('EAStoryInsert', {'tk': 'blank', 'k': 2}),
                   ('EAStoryInsert', {'tk': 'absent'})):
        out.append(mk(op, 0, gap=None, rname='no-stories', timeout=T, **kw))
        out.append(mk(op, 0, gap=None, lead=4, trail=1, rname='no-stories', timeout=T, **kw))
    # the smallest shapes: a single story; every story of the running order named as a source
    for op, kw in (('roStoryMove', {'tk': 'blank'}), ('roStoryMove', {'tk': 'absent'}), ('EAStoryMove', {'tk': 'blank'}),
                   ('EAStoryMove', {'tk': 'absent'}), ('roStoryDelete', {}), ('EAStoryDelete', {}), ('roStoryReplace', {}),
                   ('EAStoryReplace', {'k': 2}), ('roStorySend', {}), ('roStoryInsert', {}), ('EAStoryInsert', {'tk': 'blank'}),
                   ('roStoryAppend', {})):
        out.append(mk(op, 1, gap=None, rname='single-story', timeout=T, **kw))
        out.append(mk(op, 1, gap=None, lead=0, trail=1, rname='single-story', timeout=T, **kw))
    for op, kw in (('EAStoryMove', {'k': 2, 'tk': 'blank'}), ('EAStoryMove', {'k': 2, 'tk': 'absent'}), ('EAStoryDelete', {'k': 2}),
                   ('roStoryDelete', {'k': 2}), ('EAStorySwap', {'k': 2})):
        out.append(mk(op, 2, gap=None, rname='all-stories-named', timeout=T, **kw))
        out.append(mk(op, 2, gap=None, trail=1, lead=4, rname='all-stories-named', timeout=T, **kw))
    # one larger shape per order-sensitive type (no gap child: keeps the path tree small)
    big = 4 if tier == 'quick' else 5
    if tier == 'quick':
        for op in ('roStoryMove', 'EAStoryMove'):
            out.append(mk(op, big, gap=None, rname='any', timeout=T))
        out.append(mk('EAStoryMove', big, k=2, gap=None, rname='multi', timeout=T))
        out.append(mk('EAStorySwap', big, k=2, gap=None, timeout=T))
        out.append(mk('roStorySend', big, gap=None, timeout=T))
    else:
        # thorough: six to eight stories for the position-sensitive types (no gap child)
        for n_ in (6, 7, 8):
            for op in ('roStoryMove', 'EAStoryMove'):
                out.append(mk(op, n_, gap=None, rname='any', timeout=T))
            out.append(mk('EAStoryMove', n_, k=2, gap=None, rname='multi', timeout=T))
            out.append(mk('EAStorySwap', n_, k=2, gap=None, timeout=T))
            out.append(mk('roStorySend', n_, gap=None, timeout=T))
            out.append(mk('roStoryReplace', n_, k=2, gap=None, timeout=T))
            out.append(mk('EAStoryDelete', n_, k=2, gap=None, timeout=T))
        out.append(mk('EAStoryMove', 6, k=3, gap=None, rname='multi', timeout=T))
    # layouts: identifying children after the stories (lead=0), richer metadata (lead=4)
    for op in ('roStoryMove', 'roStoryInsert', 'roStoryReplace', 'EAStorySwap', 'roStorySend', 'EAStoryMove'):
        k = 2 if op == 'EAStorySwap' else 1
        out.append(mk(op, 3, k=k, lead=0, gap=None, rname='lead0', timeout=T))
    # conservation under unresolvable / degenerate operands
    for sk, tk in ((['unknown'], 'existing'), (['existing'], 'unknown'), (['blank'], 'existing'),
                   (['existing'], 'source')):
        out.append(mk('roStoryMove', 3, harness='conserve_cell', sk=sk, tk=tk, rname='conserve', gap=None, timeout=T))
        out.append(mk('EAStoryMove', 3, harness='conserve_cell', sk=sk, tk=tk, rname='conserve', gap=None, timeout=T))
    out.append(mk('EAStoryMove', 3, k=2, harness='conserve_cell', sk=['existing', 'unknown'], tk='existing',
                  rname='conserve', gap=None, timeout=T))
    out.append(mk('EAStoryMove', 3, k=2, harness='conserve_cell', sk=['existing', 'same'], tk='existing',
                  rname='conserve', gap=None, timeout=T))
    for sk in (['existing', 'same'], ['existing', 'unknown'], ['unknown', 'existing'], ['existing', 'blank'],
               ['blank', 'existing']):
        out.append(mk('EAStorySwap', 3, k=2, harness='conserve_cell', sk=sk, tk=None, rname='conserve',
                      gap=None, timeout=T))
    return out
