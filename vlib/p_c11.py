"""C11 - a collection is accepted exactly when it describes one running order."""
import itertools
from .cells import Cell, str_pre

PID = 'C11'
ASSUMPTIONS = [
    'running-order IDs of the readers are solver variables (1 printable character each), the numbers of roCreate / '
    'roDelete / other messages are cell parameters 0..2, allow_incomplete in {False, True}',
    'every cell runs against the default build and against the package compiled from the current source with '
    'optimize=1 (what python -O does: asserts and "if __debug__" removed) - stub S8',
    'parser stub S4 / S3 stub S6 as in C09',
]


def bounds(tier):
    return {'roCreate': '0..2', 'roDelete': '0..2', 'others': '0..2', 'interpreter': ['default', '-O (optimize=1)'],
            'constructors': ['from_strings'] + (['from_files', 'from_s3'] if tier == 'thorough' else ['(files, s3: subset)'])}


def mk(n_rc, n_rd, n_other, allow, opt, source='string', order=None, T=60, with_replace=False, same_mid=False,
       blank_roid=None, repeat=None, completed_rc=None, structured=False):
    n = n_rc + n_rd + n_other
    P = {'n_rc': n_rc, 'n_rd': n_rd, 'n_other': n_other, 'allow': allow, 'opt': opt, 'source': source, 'order': order,
         'with_replace': with_replace, 'same_mid': same_mid, 'blank_roid': blank_roid, 'repeat': repeat, 'completed_rc': completed_rc}
    sym = [('r%d' % i, 'str') for i in range(n)]
    pre = str_pre([s for s, _ in sym])
    if structured:
        # running-order IDs with structure (SERVER;FOLDER;ID): two IDs that share a head or a tail are two IDs
        pre = ["re.fullmatch('[AB];[12];?', r%d)" % i for i in range(n)]
    cid = 'C11/rc%d-rd%d-other%d/%s/%s/%s' % (n_rc, n_rd, n_other, 'allow-incomplete' if allow else 'complete-only',
                                             '-O' if opt else 'default', source)
    if with_replace:
        cid += '/with-roReplace'
    if same_mid:
        cid += '/id-of-roCreate-repeated'
    if blank_roid is not None:
        cid += '/blank-roID-at-%d' % blank_roid
    if repeat is not None:
        cid += '/entry-%d-listed-twice' % repeat
    if order:
        cid += '/order-' + ''.join(map(str, order))
    if structured:
        cid += '/structured-roIDs'
    if completed_rc:
        cid += '/roCreate-' + '+'.join(map(str, completed_rc)) + '-is-saved-completed-output'
    return Cell(pid=PID, cid=cid, harness='h_collect:accept_cell', params=P, sym=sym, pre=pre, stubs=(),
                timeout=T, cost=n, example={'r%d' % i: ('A;1' if structured else 'R') for i in range(n)})


def cells(tier):
    T = 60 if tier == 'quick' else 600
    out = []
    for n_rc, n_rd, n_other in itertools.product(range(3), range(3), range(3)):
        for allow in (False, True):
            for opt in (False, True):
                if tier == 'quick' and n_other == 1 and (n_rc, n_rd) not in ((1, 1), (1, 0), (0, 1)):
                    continue
                out.append(mk(n_rc, n_rd, n_other, allow, opt, T=T))
    for src in ('file', 's3'):
        for (n_rc, n_rd, n_other) in ((1, 1, 1), (0, 1, 1), (2, 1, 0), (1, 2, 0), (1, 0, 2), (0, 0, 0)):
            for opt in (False, True):
                out.append(mk(n_rc, n_rd, n_other, False, opt, source=src, T=T))
        # allow_incomplete is honoured by every constructor
        for (n_rc, n_rd, n_other) in ((1, 0, 1), (1, 0, 0), (1, 2, 0), (0, 0, 1)):
            out.append(mk(n_rc, n_rd, n_other, True, False, source=src, T=T))
    # a saved, completed merge result is a roCreate document like any other: it counts as one
    for (n_rc, n_rd, n_other), comp in (((1, 1, 0), [0]), ((1, 0, 1), [0]), ((1, 0, 0), [0]), ((2, 1, 1), [0]), ((2, 1, 1), [1]),
                                        ((2, 1, 0), [0, 1]), ((2, 0, 0), [1]), ((1, 1, 2), [0])):
        for allow in (False, True):
            for opt in (False, True):
                out.append(mk(n_rc, n_rd, n_other, allow, opt, T=T, completed_rc=comp))
    out.append(mk(2, 1, 1, False, False, source='file', T=T, completed_rc=[1], order=[3, 1, 0, 2]))
    out.append(mk(1, 1, 1, True, False, source='s3', T=T, completed_rc=[0]))
    for (n_rc, n_rd, n_other) in ((1, 1, 0), (1, 1, 1), (1, 0, 1)):
        for allow in (False, True):
            out.append(mk(n_rc, n_rd, n_other, allow, False, T=T, structured=True))
    # the constructor itself, given a list of readers that the caller uses for a second collection
    for (n_rc, n_rd, n_other) in ((1, 1, 1), (1, 0, 2), (2, 1, 0), (0, 1, 1), (1, 2, 0)):
        for allow in (False, True):
            out.append(mk(n_rc, n_rd, n_other, allow, False, source='readers', T=T))
    # the same string / path / key listed twice counts twice
    for src in ('string', 'file', 's3'):
        for (n_rc, n_rd, n_other), rep in (((1, 1, 0), 0), ((1, 1, 0), 1), ((1, 1, 1), 1), ((1, 0, 1), 0)):
            for allow in (False, True):
                out.append(mk(n_rc, n_rd, n_other, allow, False, source=src, T=T, repeat=rep))
    # a message repeating the roCreate's message ID stays in the collection; a blank roID is not "the same ID"
    for (n_rc, n_rd, n_other) in ((1, 1, 1), (1, 1, 0), (1, 0, 2)):
        for allow in (False, True):
            out.append(mk(n_rc, n_rd, n_other, allow, False, T=T, same_mid=True))
            for b in range(n_rc + n_rd + n_other):
                out.append(mk(n_rc, n_rd, n_other, allow, b % 2 == 1, T=T, blank_roid=b))
    # a roReplace is a message like any other (its class derives from RunningOrder): it is neither a roCreate
    # nor removed from the readers
    for (n_rc, n_rd, n_other) in ((1, 1, 1), (0, 1, 1), (1, 0, 2), (0, 0, 1), (2, 1, 1)):
        for allow in (False, True):
            for opt in (False, True):
                out.append(mk(n_rc, n_rd, n_other, allow, opt, T=T, with_replace=True))
    # the roCreate / roDelete need not come first / last
    out.append(mk(1, 1, 2, False, False, order=[3, 1, 0, 2], T=T))
    out.append(mk(1, 1, 2, False, True, order=[2, 3, 1, 0], T=T))
    out.append(mk(2, 1, 1, True, True, order=[3, 0, 2, 1], T=T))
    return out
