"""Worker process: analyses one cell at a time with CrossHair and reports measured counters."""
import collections
import importlib.util
import os
import re
import sys
import time
import traceback

_pc = time.perf_counter  # CrossHair models time.time()/monotonic(); perf_counter stays real

STAT = {'queries': 0, 'solver_s': 0.0, 'unknown': 0}
LAST = {}
_installed = False


def _install():
    """Count solver queries and capture CrossHair's path statistics (once per process)."""
    global _installed
    if _installed:
        return
    import z3
    import crosshair.core as core
    orig_check = z3.Solver.check

    def check(self, *a):
        t = _pc()
        r = orig_check(self, *a)
        STAT['queries'] += 1
        STAT['solver_s'] += _pc() - t
        if r == z3.unknown:
            STAT['unknown'] += 1
        return r
    z3.Solver.check = check
    orig_calltree = core.analyze_calltree

    def calltree(options, conditions):
        res = orig_calltree(options, conditions)
        LAST['confirmed_paths'] = res.num_confirmed_paths
        LAST['paths'] = (options.stats or {}).get('num_paths', 0)
        return res
    core.analyze_calltree = calltree
    # VERIF_SEED reseeds CrossHair's (otherwise fixed-seed) path chooser: it changes which
    # counterexample is met first, never an exhaustive verdict
    seed = int(os.environ.get('VERIF_SEED') or 0)
    if seed:
        import random
        import crosshair.statespace as ss
        ss.newrandom = lambda: random.Random(1801243388510242075 ^ (seed * 0x9E3779B97F4A7C15))
    _installed = True


class Stubs:
    """Environment stubs S2/S3 (DESIGN.md section 4), installed around one analysis."""

    def __init__(self, names):
        self.names = names
        self.undo = []

    def __enter__(self):
        if 'hash' in self.names:
            from crosshair.libimpl import builtinslib
            cls = builtinslib.LazyIntSymbolicStr
            old = cls.__dict__.get('__hash__')
            cls.__hash__ = lambda self: 0
            self.undo.append(lambda: setattr(cls, '__hash__', old))
        if 'float' in self.names:
            import mosromgr.moselements as me

            def _num(x):
                # durations enter as exact integers (symbolic ints stored as element text);
                # float() of a symbolic int would realise it.  Strings use the real float().
                if isinstance(x, int) and not isinstance(x, bool):
                    return x
                return float(x)
            me.float = _num
            self.undo.append(lambda: delattr(me, 'float'))
        if 'parse' in self.names:
            # stub S10: dateutil under tracing costs ~0.3 s per call; the known concrete stamps
            # are looked up, anything else (and any extra argument) goes to the real parser
            import mosromgr.moselements as me
            import mosromgr.mostypes as mty
            from vlib.h_access import STAMPS, STAMP_VALUES
            real = me.parse

            def _parse(s, *a, **k):
                if not a and not k and type(s) is str:
                    for st, val in zip(STAMPS, STAMP_VALUES):
                        if s is st or s == st:
                            return val
                return real(s, *a, **k)
            me.parse = _parse
            mty.parse = _parse
            self.undo.append(lambda: (setattr(me, 'parse', real), setattr(mty, 'parse', real)))
        return self

    def __exit__(self, *a):
        for u in reversed(self.undo):
            try:
                u()
            except Exception:
                pass


def load_cell_module(cell, workdir, tag):
    path = os.path.join(workdir, 'cell_%s_%d.py' % (tag, os.getpid()))
    with open(path, 'w') as f:
        f.write(cell.source())
    name = 'vcell_%s_%d_%d' % (tag, os.getpid(), int(_pc() * 1e6))
    spec = importlib.util.spec_from_file_location(name, path)
    mod = importlib.util.module_from_spec(spec)
    sys.modules[name] = mod
    import linecache
    linecache.checkcache(path)
    spec.loader.exec_module(mod)
    return mod, name


_CALL_RE = re.compile(r'when calling (cell|twin)\(')


def parse_counterexample(msg):
    m = _CALL_RE.search(msg)
    if not m:
        return None
    s = msg[m.start() + len('when calling '):]
    s = re.sub(r'\s*\(which (returns|raises).*\)\s*$', '', s, flags=re.S)
    s = re.sub(r'\s+with crosshair\.patch_to_return\(.*$', '', s, flags=re.S)
    try:
        a, k = eval(s, {'cell': lambda *a, **k: (a, k), 'twin': lambda *a, **k: (a, k),
                        '__builtins__': {'float': float, 'True': True, 'False': False, 'None': None}})
    except Exception:
        return None
    return list(a), k


def analyze(cell, workdir, fn_name='cell', timeout=None):
    """Run CrossHair on one cell; returns a plain dict."""
    _install()
    from crosshair.core_and_libs import analyze_function, run_checkables
    from crosshair.options import AnalysisOptionSet
    from vlib.build import Ctx
    STAT.update(queries=0, solver_s=0.0, unknown=0)
    LAST.clear()
    Ctx.reset(replay=False)
    t0 = _pc()
    out = {'cid': cell.cid, 'fn': fn_name}
    name = None
    try:
        mod, name = load_cell_module(cell, workdir, 'a')
        tmo = timeout or cell.timeout
        opts = AnalysisOptionSet(per_condition_timeout=tmo, per_path_timeout=max(10.0, tmo / 4),
                                 stats=collections.Counter())
        with Stubs(cell.stubs):
            msgs = run_checkables(analyze_function(getattr(mod, fn_name), opts))
        if not msgs:
            out.update(state='NO_CONDITIONS', message='no conditions found')
        else:
            m = msgs[0]
            out.update(state=m.state.name, message=m.message, traceback=m.traceback)
            if m.state.name in ('POST_FAIL', 'EXEC_ERR', 'POST_ERR'):
                ce = parse_counterexample(m.message)
                if ce is not None:
                    names = [n for n, _ in cell.sym]
                    args = dict(zip(names, ce[0]))
                    args.update(ce[1])
                    out['args'] = args
    except BaseException as e:  # worker must survive anything
        out.update(state='HARNESS_ERROR', message='%s: %s' % (type(e).__name__, e),
                   traceback=traceback.format_exc())
    finally:
        if name:
            sys.modules.pop(name, None)
    out.update(paths=LAST.get('paths', 0), confirmed_paths=LAST.get('confirmed_paths', 0),
               queries=STAT['queries'], solver_s=round(STAT['solver_s'], 4),
               unknown=STAT['unknown'], nontrivial=Ctx.nontrivial, wall_s=round(_pc() - t0, 3))
    return out


def worker_main(conn, workdir):
    """Serve (op, payload) requests over a pipe until told to stop."""
    import warnings
    warnings.simplefilter('ignore')
    while True:
        try:
            req = conn.recv()
        except EOFError:
            break
        if req is None:
            break
        cell, fn_name, timeout = req
        try:
            res = analyze(cell, workdir, fn_name, timeout)
        except BaseException as e:
            res = {'cid': cell.cid, 'fn': fn_name, 'state': 'HARNESS_ERROR',
                   'message': '%s: %s' % (type(e).__name__, e), 'traceback': traceback.format_exc(),
                   'paths': 0, 'confirmed_paths': 0, 'queries': 0, 'solver_s': 0.0, 'unknown': 0,
                   'nontrivial': 0, 'wall_s': 0.0}
        conn.send(res)
