"""Builders for running orders and messages, shared by symbolic runs and concrete replays.

In *symbolic* mode (inside CrossHair) the element tree is assembled with the real C
``Element`` type, symbolic ``str`` objects are stored as ``text``/``tag``/attribute values
and the tree is handed to the real classifier (``MosFile._classify``) or constructor.

In *replay* mode (plain interpreter, concrete values) the same tree is serialised with
``ElementTree.tostring`` and goes through the public ``MosFile.from_string`` - i.e. the real
parser and the real classification - so a counterexample is only reported when it reproduces
through the public API.
"""
import logging
import warnings
from xml.etree import ElementTree as ET

import mosromgr.mostypes as mt
from mosromgr.exc import MosRoMgrWarning

logging.disable(logging.CRITICAL)  # stub S1 (DESIGN.md section 4)


class Ctx:
    replay = False      # concrete mode
    raw = False         # builders return bare trees
    envelope_layout = None   # header layout of the next envelopes ('short' / 'long' / None)
    ncs_id = None            # ncsID of the next envelopes
    docs = []           # XML texts rendered in replay mode, in order of construction
    nontrivial = 0      # side channel: paths on which the interesting event happened
    info = {}           # details filled by harnesses (observed / expected / fingerprint)
    lex = False         # replay only: documents are written as a lexical variant of the same infoset
    bump = False        # replay only: messages with the default message ID carry a much later one
    indent = False      # replay only: documents are pretty-printed (whitespace text between elements)
    mid = None          # messages built with the default message ID carry this text instead ('' = blank tag)

    @classmethod
    def reset(cls, replay=False):
        cls.replay = replay
        cls.raw = False
        cls.envelope_layout = None
        cls.ncs_id = None
        cls.docs = []
        cls.nontrivial = 0
        cls.info = {}
        cls.lex = False
        cls.bump = False
        cls.indent = False
        cls.mid = None


def hit():
    """Mark the current path as non-trivial (the interesting event of the cell happened)."""
    Ctx.nontrivial += 1


def note(**kw):
    Ctx.info.update(kw)


def E(tag, *kids, text=None, tail=None, **attrib):
    e = ET.Element(tag, attrib)
    e.text = text
    e.tail = tail
    for k in kids:
        if k is not None:
            e.append(k)
    return e


def T(tag, text=None):
    return E(tag, text=text)


def render(root):
    return ET.tostring(root, encoding='unicode')


def _esc(s):
    return s.replace('&', '&amp;').replace('<', '&lt;').replace('>', '&gt;')


def render_lex(root):
    """The same infoset as render(root), spelt differently: XML declaration, comments and processing
    instructions (between elements and in the middle of character data), CDATA sections, character
    references, <a></a> for <a/>.  The default parser drops comments and PIs and joins the character data
    around them, so every document means exactly what its render() twin means."""
    n = [0]

    def chars(s):
        if not s:
            return ''
        n[0] += 1
        k, h = n[0] % 4, len(s) // 2
        if k == 0:
            return '<![CDATA[' + s.replace(']]>', ']]]]><![CDATA[>') + ']]>'
        if k == 1:
            return _esc(s[:h]) + '<!--c-->' + _esc(s[h:])
        if k == 2 and ord(s[0]) >= 32:
            return '&#x%X;' % ord(s[0]) + _esc(s[1:])
        return _esc(s[:h]) + '<?ncs cue?>' + _esc(s[h:])

    def el(e):
        tag, decl = e.tag, ''
        if tag.startswith('{'):
            # universal name {uri}local: a prefixed name with the declaration on the element itself
            uri, local = tag[1:].split('}', 1)
            tag, decl = 'v%d:%s' % (len(uri) % 7, local), " xmlns:v%d='%s'" % (len(uri) % 7, _esc(uri))
        out = ['<', tag, decl]
        for k, v in e.attrib.items():
            out.append(" %s = '%s'" % (k, _esc(v).replace("'", '&apos;').replace('\n', '&#10;')
                                        .replace('\r', '&#13;').replace('\t', '&#09;')))
        out.append('>')
        out.append(chars(e.text))
        if len(e) and not e.text:
            out.append('<!-- -->')
        for c in e:
            out.append(el(c))
            out.append(chars(c.tail))
        out.append('</%s>' % tag)
        return ''.join(out)
    return '<?xml version="1.0" encoding="UTF-8"?>\n<!-- lexical variant -->\n' + el(root) + '\n<?end x?>'


def doc_text(root):
    """The text of a document handed to the library in replay mode."""
    if Ctx.indent:
        import copy
        root = copy.deepcopy(root)
        ET.indent(root, space='  ')         # element-only content gets newline + indentation, as an NCS would send it
        return '<?xml version="1.0" encoding="UTF-8"?>\n' + render(root) + '\n'
    return render_lex(root) if Ctx.lex else render(root)


def raw(fn):
    """Run a message/running-order builder but get the bare tree instead of a mosromgr object."""
    old = Ctx.raw
    Ctx.raw = True
    try:
        return fn()
    finally:
        Ctx.raw = old


def wrap(root, cls=None):
    """Turn a built tree into a mosromgr object through the most public path available."""
    if Ctx.raw:
        return root
    if Ctx.replay:
        text = doc_text(root)
        Ctx.docs.append(text)
        return (cls or mt.MosFile).from_string(text)
    if cls is None or cls in (mt.MosFile, mt.ElementAction):
        return (cls or mt.MosFile)._classify(root)
    return cls(root)


def envelope(base, msg_id='2', mos_id='m.mos', ncs_id='ncs'):
    lay = Ctx.envelope_layout
    if Ctx.bump and msg_id == '2':
        msg_id = '9002'
    if Ctx.mid is not None and msg_id == '2':
        msg_id = Ctx.mid or None
    if Ctx.ncs_id is not None:
        ncs_id = Ctx.ncs_id
    if lay == 'short':        # fewer header children than a roCreate built with the default layout
        return E('mos', T('messageID', msg_id), base)
    if lay == 'long':
        return E('mos', T('mosID', mos_id), T('ncsID', ncs_id), T('messageID', msg_id), T('roType', 'x'), base,
                 T('trailer', 'y'))
    return E('mos', T('mosID', mos_id), T('ncsID', ncs_id), T('messageID', msg_id), base)


# ---------------------------------------------------------------------------------------
# stories and items
# ---------------------------------------------------------------------------------------

def timing_block(dur=None, text_time=None, media_time=None, started=None, ended=None, schema='sch.story'):
    kids = []
    if dur is not None:
        kids.append(T('StoryDuration', dur))
    if text_time is not None:
        kids.append(T('TextTime', text_time))
    if media_time is not None:
        kids.append(T('MediaTime', media_time))
    if started is not None:
        kids.append(T('StoryStarted', started))
    if ended is not None:
        kids.append(T('StoryEnded', ended))
    return E('mosExternalMetadata', T('mosScope', 'PLAYLIST'), T('mosSchema', schema),
             E('mosPayload', *kids))


def item(item_id, slug=None, obj_id=None, mos_id=None, note_text=None, extra=None):
    kids = [T('itemID', item_id)]
    if slug is not None:
        kids.append(T('itemSlug', slug))
    if obj_id is not None:
        kids.append(T('objID', obj_id))
    if mos_id is not None:
        kids.append(T('mosID', mos_id))
    if note_text is not None:
        kids.append(E('mosExternalMetadata', T('mosSchema', 'sch.item'),
                      E('mosPayload', E('studioCommands',
                                        E('studioCommand', T('text', note_text), type='note')))))
    if extra is not None:
        kids.append(extra)
    return E('item', *kids)


def decoys(story_id=None, item_id=None):
    """Elements named like structural ones, nested inside an item's own metadata payload, where only a
    recursive search (.//x, iter(x)) can find them: completion marker, message elements, a story and an item
    carrying the given IDs, bare ID tags, paragraphs, timing tags."""
    return E('mosExternalMetadata', T('mosSchema', 'decoy'), E(
        'mosPayload', E('mosromgrmeta', E('roDelete', T('roID', 'decoy'))), E('roCreate', T('roID', 'decoy')),
        E('story', T('storyID', story_id), T('p', 'decoy paragraph in a nested story')),
        E('item', T('itemID', item_id), T('itemSlug', 'decoy')),
        T('storyID', story_id), T('itemID', item_id), T('p', 'decoy paragraph'), T('roEdStart', '1999-01-01T00:00:00'),
        T('StoryDuration', '999'), T('StoryStarted', '1999-01-01T00:00:00'), T('StoryEnded', '1999-01-01T00:00:01'),
        E('storyBody', E('storyItem', T('itemID', item_id))), E('element_source', T('storyID', story_id))))


def story(story_id, slug=None, timing=None, body=(), tag='story'):
    """body: sequence of ready Elements (items, p, other)."""
    kids = [T('storyID', story_id)]
    if slug is not None:
        kids.append(T('storySlug', slug))
    if timing is not None:
        kids.append(timing)
    kids.extend(body)
    return E(tag, *kids)


def lead_meta(n, edstart=None):
    """n leading non-story children of roCreate (roID, roSlug, then optional extras)."""
    out = []
    if n >= 3:
        out.append(E('roEdStart', text=edstart, origin='ncs'))      # attributes a replacement does not carry
    if n >= 4:
        out.append(E('mosExternalMetadata', T('mosScope', 'PLAYLIST'), T('mosSchema', 'sch.ro'),
                     E('mosPayload', T('Owner', 'own', ), E('nested', T('leaf', 'x'), k='v'))))
    return out


def ro_tree(stories, lead=2, gap=None, trail=0, msg_id='1', ro_id='RO', ro_slug='slug',
            edstart=None, gap_elem=None):
    """roCreate document. ``lead`` leading non-story children (2, 3 or 4; 0 = even roID/roSlug
    come after the stories), ``gap`` = index of the story after which one non-story child sits
    (None = nowhere), ``trail`` trailing non-story children."""
    kids = []
    head = [T('roID', ro_id), T('roSlug', ro_slug)]
    if lead >= 2:
        kids.extend(head)
        kids.extend(lead_meta(lead, edstart))
    for i, s in enumerate(stories):
        kids.append(s)
        if gap is not None and gap == i:
            kids.append(gap_elem if gap_elem is not None else E('roTrigger', text='gap', origin='ncs'))
    if lead < 2:
        kids.extend(head)
    for j in range(trail):
        kids.append(E('roChannel', text='trail%d' % j, origin='ncs'))
    return envelope(E('roCreate', *kids), msg_id=msg_id)


def running_order(*a, **kw):
    return wrap(ro_tree(*a, **kw), mt.RunningOrder)


def message(base_tag, *kids, msg_id='2', ro_id='RO', cls=None, **attrib):
    base = E(base_tag, T('roID', ro_id), *kids, **attrib)
    return wrap(envelope(base, msg_id=msg_id), cls)


# ---------------------------------------------------------------------------------------
# observation helpers
# ---------------------------------------------------------------------------------------

def snap(el):
    """Structural snapshot holding the very objects stored in the tree (identity fast path)."""
    return (el.tag, tuple(sorted(el.attrib.items())), el.text, el.tail, tuple(snap(c) for c in el))


def rc_of(ro):
    return ro.xml.find('roCreate')


def story_ids(ro):
    return [s.find('storyID').text for s in rc_of(ro).findall('story')]


def item_ids(story_el):
    return [i.find('itemID').text for i in story_el.findall('item')]


def own_warnings(rec):
    return [w for w in rec if issubclass(w.category, MosRoMgrWarning)]


class Outcome:
    def __init__(self):
        self.exc = None
        self.warns = []
        self.result = None

    @property
    def raised(self):
        return self.exc is not None

    def cats(self):
        return [w.category.__name__ for w in self.warns]


def prehist_replace(ro):
    """Pre-history: a roReplace carrying exactly the current content of the running order (the children of
    roCreate are handed over to the message).  The state is the same as before, but it was reached through
    RunningOrderReplace.merge: the roCreate element is a new object and every child a deep copy."""
    rc = rc_of(ro)
    kids = list(rc)
    for c in kids:
        rc.remove(c)
    root = envelope(E('roReplace', *kids), msg_id='0')
    out = merge(ro, wrap(root))
    if out.raised:
        raise RuntimeError('pre-history roReplace failed: %r' % (out.exc,))
    return ro


def same_obj(a, b):
    """identity, or equality for values that went through a deep copy"""
    if a is b:
        return True
    if a is None or b is None:
        return False
    return a == b


class BadReturn(Exception):
    """`ro + msg` returned something that is not the running order: after `ro += msg` the caller's
    variable no longer holds a running order (every later operation fails with a built-in exception)."""


def merge(ro, msg):
    """``ro += msg`` with every warning recorded and ordinary exceptions captured."""
    out = Outcome()
    with warnings.catch_warnings(record=True) as rec:
        warnings.simplefilter('always')
        try:
            out.result = ro + msg
        except Exception as e:  # never BaseException: CrossHair steers paths with those
            out.exc = e
    out.warns = own_warnings(rec)
    if out.exc is None and out.result is not ro:
        if isinstance(out.result, mt.RunningOrder) and type(out.result) is type(ro):
            # a different RunningOrder object is a legitimate return value: `ro += msg` rebinds the caller's
            # variable to it, so the harness's `ro` is made to show what the caller would see
            ro._xml = out.result._xml
        else:
            out.exc = BadReturn('ro + msg returned %s instead of the running order' % type(out.result).__name__)
    return out


def call(fn, *a, **kw):
    out = Outcome()
    with warnings.catch_warnings(record=True) as rec:
        warnings.simplefilter('always')
        try:
            out.result = fn(*a, **kw)
        except Exception as e:
            out.exc = e
    out.warns = own_warnings(rec)
    return out


def conc(x):
    """Best-effort plain rendering of observed values for replay reports."""
    if isinstance(x, (list, tuple)):
        return [conc(i) for i in x]
    if isinstance(x, BaseException):
        return '%s: %s' % (type(x).__name__, x)
    return x
