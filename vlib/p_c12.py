"""C12 - generic merge cells with the 'exc' oracle (see h_merge.py)."""
from .h_merge import make_cells

PID = 'C12'
ASSUMPTIONS = []


def bounds(tier):
    return {'N': 3, 'sources_k': '<=2', 'carried': '<=2', 'id_length': 1, 'id_alphabet': 'U+0020..U+007E'}


def cells(tier):
    return make_cells(PID, 'exc', tier)
