"""C12 - well-formed input fails only with the library's own exceptions."""
from .h_merge import make_cells

PID = 'C12'
ASSUMPTIONS = [
    'merge part: every message type x every kind of each reference slot (existing / unknown / blank / absent / '
    'repeated / target = source), against running orders whose stories all carry timing metadata, running orders '
    'where some stories carry none, and running orders that contain a story / item whose own ID tag is blank',
    'classification part (UnknownMosFileType rather than KeyError/AttributeError) is decided by the C08 cells; '
    'non-strict collection merges running to the end by the C09 cells',
]


def bounds(tier):
    return {'N': 3 if tier == 'quick' else 4, 'sources_k': '<=2' if tier == 'quick' else '<=3', 'carried': '<=2', 'id_length': 1, 'id_alphabet': 'U+0020..U+007E',
            'untimed_patterns': ['[0]', '[1]', '[0,2]', '[0,1,2]'], 'blank_id_element': 'first story / first item'}


def plain(op, story_k, tk, sk, nk):
    """resolvable references only (for the running-order variations)"""
    return story_k in (None, 'existing') and tk in (None, 'existing', 'blank') and \
        (sk is None or all(k == 'existing' for k in sk) and len(sk) <= 1 or sk == ['existing', 'existing'] and False) and \
        (nk is None or nk == ['fresh'])


def some(op, story_k, tk, sk, nk):
    return story_k in (None, 'existing', 'unknown') and (sk is None or len(sk) == 1 or sk == ['existing', 'existing']) \
        and (nk is None or len(nk) == 1)


def cells(tier):
    out = make_cells(PID, 'exc', tier)
    for pat in (([0], [1], [0, 2], [0, 1, 2]) if tier == 'thorough' else ([0], [0, 1, 2])):
        out += make_cells(PID, 'exc', tier, thin=plain, extra={'untimed': pat}, suffix='untimed-' + ''.join(map(str, pat)))
    # roStorySend with an empty storyBody (a missing one is not schema-shaped: storyBody is a required element)
    out += make_cells(PID, 'exc', tier, N=3, ops=['roStorySend'], extra={'empty_body': True}, suffix='empty-storyBody')
    # stories that carry only some of the timing tags (TextTime alone, MediaTime alone, an empty payload)
    for pat in (['TT', 'SD', 'MT'], ['MT', 'TT+MT', 'none'], ['empty', 'TT', 'SD'], ['SD', 'blank', 'TT']):
        out += make_cells(PID, 'exc', tier, thin=plain, extra={'timing_pat': pat}, suffix='timing-' + ','.join(pat))
    some_q = some if tier == 'thorough' else (lambda op, story_k, tk, sk, nk: some(op, story_k, tk, sk, nk) and story_k in (None, 'existing') and
                                              tk in (None, 'existing', 'unknown', 'blank'))
    out += make_cells(PID, 'exc', tier, thin=some_q, extra={'blank_first': True}, suffix='blank-id-first')
    out += make_cells(PID, 'exc', tier, thin=plain, extra={'blank_first': True, 'untimed': [1]}, suffix='blank-id-first+untimed-1')
    # classification: a roElementAction of any operation / shape, and an element of any name, never escape as
    # KeyError / AttributeError (cells shared with C08)
    from .p_c08 import cells as c08_cells
    for c in c08_cells(tier):
        if '/ea/' in c.cid or '/free-tag/' in c.cid or '/table/roElementAction/' in c.cid:
            c.pid = PID
            c.cid = c.cid.replace('C08/', 'C12/classify/')
            c.params = dict(c.params, weak=True)     # C12 asks only for the exception type, not for the class
            out.append(c)
    plain2 = lambda op, story_k, tk, sk, nk: story_k in (None, 'existing') and tk in (None, 'existing', 'unknown') and \
        (sk is None or sk in (['existing'], ['existing', 'existing'], ['existing', 'unknown'])) and (nk is None or nk == ['fresh'])
    # quick tier: the history / layout variations use one resolvable representative per message shape
    hist = plain2 if tier == 'thorough' else (lambda op, story_k, tk, sk, nk: plain2(op, story_k, tk, sk, nk) and tk in (None, 'existing') and
                                             (sk is None or 'unknown' not in sk))
    out += make_cells(PID, 'exc', tier, N=3, thin=hist, extra={'prehist': True}, suffix='after-roReplace')
    # ... and after a series of refused messages (what a non-strict collection merge leaves behind)
    out += make_cells(PID, 'exc', tier, N=3, thin=hist, extra={'prefail': True}, suffix='after-refused-messages')
    # ... and when every story was re-sent by a roStorySend before
    out += make_cells(PID, 'exc', tier, N=3, thin=hist, extra={'presend': True}, suffix='after-roStorySend-of-every-story')
    # carried stories / items without the optional slug (fresh ones and duplicates)
    out += make_cells(PID, 'exc', tier, N=3, thin=lambda op, story_k, tk, sk, nk: nk is not None and story_k in (None, 'existing') and tk in (None, 'existing') and
                      (tier == 'thorough' or 'Story' in op or nk == ['fresh']),
                      extra={'carried_slug': False}, suffix='carried-without-slug')
    # roDelete / roReadyToAir into timed, untimed, empty running orders; a roDelete naming another or no running order
    from .p_c03 import icell
    T_ = 60 if tier == 'quick' else 600
    for op in ('roDelete', 'roReadyToAir'):
        for N_ in (0, 2):
            out.append(icell(PID, op, N=N_, T=T_, prop='exc'))
    out.append(icell(PID, 'roDelete', N=2, T=T_, prop='exc', free_roid=True))
    out.append(icell(PID, 'roDelete', N=2, T=T_, prop='exc', twice='free'))
    out.append(icell(PID, 'roDelete', N=2, T=T_, prop='exc', edstart='2022-03-04T12:29:45', last_ended='2022-03-04T13:00:00Z'))
    # a container that holds the same ID twice (first and last element)
    out += make_cells(PID, 'exc', tier, N=3, thin=plain2, extra={'dup_state': [0, 2]}, suffix='repeated-id-in-container')
    # the smallest shapes: one story / item, and every story / item of the container named by the message
    def small(n):
        def f(op, story_k, tk, sk, nk):
            need = (sk or []).count('existing') + (1 if tk == 'existing' and sk else 0)
            return need <= n and (nk is None or nk in (['fresh'], [])) and story_k in (None, 'existing') and \
                (sk is None or sk in (['existing'], ['existing', 'same'], ['existing', 'unknown'], ['existing', 'existing'], []))
        return f
    out += make_cells(PID, 'exc', tier, N=1, thin=small(1), suffix='single-element')
    out += make_cells(PID, 'exc', tier, N=2, thin=lambda op, story_k, tk, sk, nk: small(2)(op, story_k, tk, sk, nk) and
                      (sk or []).count('existing') == 2, suffix='all-elements-named')
    # a story / item with a blank ID in the MIDDLE of the container (between the elements a multi-ID message names)
    multi = lambda op, story_k, tk, sk, nk: story_k in (None, 'existing') and tk in (None, 'existing', 'blank') and \
        (sk is None or sk in (['existing', 'existing'], ['existing', 'unknown'], ['existing'])) and (nk is None or nk == ['fresh'])
    for mid in (1, 2):
        out += make_cells(PID, 'exc', tier, N=3, thin=multi, extra={'blank_mid': mid}, suffix='blank-id-at-%d' % mid)
    # roMetadataReplace with any carried tags (free text where a timestamp is expected, schema-less blocks)
    from .p_c04 import mcell
    for carry in ([], ['roEdStart-text'], ['roEdStart-text', 'metaA'], ['metaNone'], ['metaBlank', 'fresh'], ['metaA', 'metaB', 'metaX'],
                  ['roChannel', 'roEdStart-text']):
        out.append(mcell(PID, 'exc', carry, T=60 if tier == 'quick' else 600))
    # roMetadataReplace into a running order without stories
    from .p_c04 import mcell as _mcell
    for carry in ([], ['fresh'], ['metaX'], ['roEdStart', 'metaA']):
        out.append(_mcell(PID, 'exc', carry, N=0, T=60 if tier == 'quick' else 600, gap=None))
    # "a non-strict collection merge always runs to the end": collections of 0..4 messages, any of which may fail
    # (solver-chosen which), judged for escaping exceptions only
    from .p_c09 import mk as cmk, QUADS
    TC = 90 if tier == 'quick' else 600
    for kinds in ((), ('roStoryMove',), ('roStoryDelete', 'roItemInsert'), ('roStoryReplace', 'roDelete', 'roStoryAppend')) + tuple(QUADS):
        for src in (('string',) if kinds else ('string', 'file', 's3')):
            out.append(cmk(PID, kinds, False, src, T=TC, judge='runs-to-end', tag='runs-to-the-end'))
    out.append(cmk(PID, (), False, 'string', T=TC, judge='runs-to-end', tag='runs-to-the-end', merge_twice=True))
    out.append(cmk(PID, ('roStoryMove', 'roStoryMove'), False, 'string', T=TC, judge='runs-to-end', tag='runs-to-the-end', rc_completed=True))
    if tier == 'thorough':
        # one more size: five (and six) stories / items for the resolvable and k-th-unresolvable shapes
        out += make_cells(PID, 'exc', tier, N=5, thin=plain2, suffix='N5')
        out += make_cells(PID, 'exc', tier, N=6, thin=lambda op, story_k, tk, sk, nk: plain2(op, story_k, tk, sk, nk) and tk in (None, 'existing') and
                          (sk is None or sk == ['existing', 'existing']), suffix='N6')
    return out
