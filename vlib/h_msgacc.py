"""C20 - message objects expose exactly the targets and sources the message names."""
import contextlib
import io
from xml.etree import ElementTree as ET

import mosromgr.mostypes as mt

from . import build as B
from . import msgs as M
from .build import E, T
from .h_order import OPS, build_message
from .h_payload import rich_item, rich_story

# op -> (accessor of the story ref, accessor of the target, accessor of sources/carried, what sources are)
TABLE = {
    'roStoryAppend':  (None, None, 'stories', 'carried'),
    'roStoryInsert':  (None, 'target_story', 'source_stories', 'carried'),
    'roStoryReplace': (None, 'story', 'stories', 'carried'),
    'roStoryMove':    (None, 'target_story', 'source_story', 'ids'),
    'roStoryDelete':  (None, None, 'stories', 'ids'),
    'roStorySend':    (None, None, 'story', 'ids'),
    'EAStoryInsert':  (None, 'story', 'stories', 'carried'),
    'EAStoryReplace': (None, 'story', 'stories', 'carried'),
    'EAStoryMove':    (None, 'story', 'stories', 'ids'),
    'EAStoryDelete':  (None, None, 'stories', 'ids'),
    'EAStorySwap':    (None, None, 'stories', 'ids'),
    'roItemDelete':   ('story', None, 'items', 'ids'),
    'roItemInsert':   ('story', 'item', 'items', 'carried'),
    'roItemReplace':  ('story', 'item', 'items', 'carried'),
    'roItemMoveMultiple': ('story', 'item', 'items', 'ids'),
    'EAItemReplace':  ('story', 'item', 'items', 'carried'),
    'EAItemDelete':   ('story', None, 'items', 'ids'),
    'EAItemInsert':   ('story', 'item', 'items', 'carried'),
    'EAItemSwap':     ('story', None, 'items', 'ids'),
    'EAItemMove':     ('story', 'item', 'items', 'ids'),
}


def same(a, b):
    if a is None or b is None:
        return a is None and b is None
    return a is b or a == b


def ids_of(x):
    if x is None:
        return None
    if isinstance(x, (list, tuple)):
        return [e.id for e in x]
    return [x.id]


def run_inspect(msg):
    """inspect() with the printed objects recorded (stub S5) / stdout captured (replay)."""
    printed = []
    if B.Ctx.replay:
        buf = io.StringIO()
        with contextlib.redirect_stdout(buf):
            out = B.call(msg.inspect)
        return out, None, buf.getvalue()
    real = mt.__dict__.get('print')

    def rec(*a, **k):
        printed.extend(a)
    mt.print = rec
    try:
        out = B.call(msg.inspect)
    finally:
        if real is None:
            del mt.print
        else:
            mt.print = real
    return out, printed, None


def mentioned(x, printed, text):
    if x is None:
        return True
    if text is not None:
        return x in text
    for p in printed:
        if p is x:
            return True
    for p in printed:
        if isinstance(p, str) and p == x:
            return True
    return False


def msgacc_cell(P, A):
    op = P['op']
    level, has_t, has_src, has_new = OPS[op]
    k = P.get('k', 1)
    tk = P.get('tk', 'present')
    story_ref = A.get('p0') if level == 'item' else None
    c0, c1 = A.get('c0', 'c'), A.get('c1', 'd')
    src_ids = [A['u%d' % j] for j in range(k)]        # named or carried IDs, in message order
    tgt = {'present': A.get('t'), 'blank': None, 'absent': M.ABSENT}[tk] if has_t else None
    B.Ctx.raw = True
    try:
        if has_new:
            carried = [rich_story(i, c0, c1) if level == 'story' else rich_item(i, c0, c1) for i in src_ids]
            ct = P.get('carried_timing')
            if ct and level == 'story':
                # timing metadata that is absent, blank or not a plain number: the message still names its stories
                for st_ in carried:
                    old_tb = st_.find('mosExternalMetadata')
                    pos = list(st_).index(old_tb)
                    st_.remove(old_tb)
                    if ct == 'blank':
                        st_.insert(pos, E('mosExternalMetadata', T('mosSchema', 'sch.story'),
                                          E('mosPayload', T('StoryDuration', None), T('TextTime', None), T('MediaTime', None),
                                            T('StoryStarted', None), T('StoryEnded', None))))
                    elif ct == 'odd':
                        st_.insert(pos, E('mosExternalMetadata', T('mosSchema', 'sch.story'),
                                          E('mosPayload', T('StoryDuration', '00:01:30'), T('MediaTime', c1),
                                            T('StoryStarted', c0))))
            from .h_payload import build_with
            root = build_with(op, tgt, carried, story_ref)
        else:
            root = build_message({'op': op, 'long_body': P.get('long_body'), 'empty_body': P.get('empty_body')}, [], tgt, src_ids, [], addr=story_ref)
    finally:
        B.Ctx.raw = False
    if P.get('pretty'):
        ET.indent(root, space='  ')
    made = B.call(lambda: B.wrap(root))
    if made.raised:
        B.hit()
        B.note(sig='message-not-classifiable-' + type(made.exc).__name__, observed=B.conc(made.exc),
               expected='a message object')
        return False
    msg = made.result
    sent = None
    if has_new:
        base = msg.base_tag.find('element_source') if msg.base_tag.find('element_source') is not None else msg.base_tag
        sent = [B.snap(e) for e in (base.findall('story') if level == 'story' else base.findall('item'))]
    s_acc, t_acc, src_acc, what = TABLE[op]
    sig = None
    obs = {}

    def get(name):
        def read():
            v = getattr(msg, name)
            # touching the IDs is part of reading the accessor
            if isinstance(v, (list, tuple)):
                [e.id for e in v]
            elif v is not None:
                v.id
            return v
        o = B.call(read)
        if o.raised:
            raise AccessorFailed('%s-raised-%s' % (name, type(o.exc).__name__))
        return o.result
    try:
        if s_acc:
            st = get(s_acc)
            obs['story'] = ids_of(st)
            if st is None or not same(st.id, story_ref):
                sig = 'story-ref-differs'
        if sig is None and t_acc:
            tg = get(t_acc)
            obs['target'] = ids_of(tg)
            want = tgt if tk == 'present' else None
            got = None if tg is None else tg.id
            if not same(got, want):
                sig = 'target-differs' if tk == 'present' else 'blank-target-reported-as-an-id'
        if sig is None:
            srcs = get(src_acc)
            got = ids_of(srcs)
            obs['sources'] = got
            if got is None or len(got) != len(src_ids) or any(not same(g, w) for g, w in zip(got, src_ids)):
                sig = 'sources-differ'
            elif what == 'carried':
                lst = list(srcs) if isinstance(srcs, (list, tuple)) else [srcs]
                for el, s in zip(lst, sent):
                    if B.snap(el.xml) != s:
                        sig = 'carried-content-differs'
                        break
                if sig is None and level == 'story':
                    for el in lst:
                        if [i.id for i in el.items] != ['ci0', 'ci1'] or not same(el.slug, c0):
                            sig = 'carried-story-accessors-differ'
        if sig is None and op == 'roStorySend':
            # the story the message carries is exposed with its body in message order
            st = get('story')
            want_items = [i.find('itemID').text for i in msg.base_tag.find('storyBody').findall('storyItem')]
            want_body = [('item', c.find('itemID').text) if c.tag == 'storyItem' else ('p', c.text or '')
                         for c in msg.base_tag.find('storyBody') if c.tag in ('storyItem', 'p')]
            got_body = [('item', b.id) if hasattr(b, 'id') else ('p', b) for b in st.body]
            if [i.id for i in st.items] != want_items:
                sig = 'carried-story-items-differ'
            elif got_body != want_body:
                sig = 'carried-story-body-differs'
        if sig is None and P.get('post_merge') and op == 'roStorySend':
            ro = B.running_order([B.story(src_ids[0], slug='old', timing=B.timing_block(dur='10'),
                                          body=[B.item('old-item')])], lead=2)
            o1 = B.merge(ro, msg)
            o2 = B.merge(ro, M.item_delete(src_ids[0], ['si1']))
            o3 = B.merge(ro, M.item_insert(src_ids[0], None, [B.item('added-later')]))
            if o1.raised or o2.raised or o3.raised:
                sig = 'merge-sequence-raised'
            else:
                st2 = get('story')
                if [i.id for i in st2.items] != want_items:
                    sig = 'message-exposes-later-edits-of-the-running-order'
        if sig is None and msg.message_id != 2:
            sig = 'message-id'
        if sig is None and msg.ro_id != 'RO':
            sig = 'ro-id'
        if sig is None:
            out, printed, text = run_inspect(msg)
            if out.raised:
                sig = 'inspect-raised-' + type(out.exc).__name__
            else:
                for i in src_ids:
                    if not mentioned(i, printed, text):
                        sig = 'inspect-omits-a-source'
                        break
                if sig is None and P.get('inspect_target', False) and tk == 'present' and not mentioned(tgt, printed, text):
                    sig = 'inspect-omits-the-target'
    except AccessorFailed as e:
        sig = str(e)
    B.hit()
    if B.Ctx.replay:
        B.note(sig=sig, observed=obs, expected={'story': story_ref, 'target': None if tk != 'present' else tgt,
                                                'sources': src_ids})
    return sig is None


class AccessorFailed(Exception):
    pass


def other_cell(P, A):
    """roMetadataReplace, roReplace, roDelete, roReadyToAir, roCreate: accessors and inspect()."""
    op = P['op']
    c0, rid = A['c0'], A['r0']
    ids = [A['u0'], A['u1']]
    B.Ctx.raw = True
    try:
        if op == 'roMetadataReplace':
            root = M.metadata_replace([T('roSlug', c0), T('roEdStart', None), E('mosExternalMetadata', T('mosSchema', c0))],
                                      ro_id=rid)
        elif op == 'roReplace':
            root = M.ro_replace([T('roSlug', c0), T('roEdStart', None), T('roChannel', c0)] +
                                [rich_story(i, c0, 'x') for i in ids], ro_id=rid)
        elif op == 'roDelete':
            root = M.ro_delete(ro_id=rid)
        elif op == 'roReadyToAir':
            root = M.ready_to_air(ro_id=rid)
        else:
            root = B.ro_tree([rich_story(i, c0, 'x') for i in ids], ro_id=rid, ro_slug=c0, msg_id='2')
        if P.get('untimed_first'):
            # the first carried story has no timing metadata, the second one has
            for st_ in root.iter('story'):
                tb_ = st_.find('mosExternalMetadata')
                if tb_ is not None:
                    st_.remove(tb_)
                break
    finally:
        B.Ctx.raw = False
    if P.get('pretty'):
        ET.indent(root, space='  ')
    msg = B.wrap(root)
    sig = None
    o = B.call(lambda: (msg.ro_id, msg.message_id, msg.completed))
    if o.raised:
        sig = 'accessor-raised-' + type(o.exc).__name__
    elif not same(o.result[0], rid) or o.result[1] != 2 or o.result[2] is not False:
        sig = 'ids-differ'
    if sig is None and op in ('roMetadataReplace', 'roReplace', 'roCreate'):
        o = B.call(lambda: msg.ro_slug)
        if o.raised or not same(o.result, c0):
            sig = 'ro-slug-differs'
    if sig is None and op in ('roReplace', 'roCreate'):
        o = B.call(lambda: [s.id for s in msg.stories])
        if o.raised or len(o.result) != 2 or any(not same(g, w) for g, w in zip(o.result, ids)):
            sig = 'stories-differ'
    if sig is None:
        out, printed, text = run_inspect(msg)
        if out.raised:
            sig = 'inspect-raised-' + type(out.exc).__name__
        elif op == 'roCreate' and not all(mentioned(i, printed, text) for i in ids):
            sig = 'inspect-omits-a-story'
        elif op == 'roDelete' and not mentioned(rid, printed, text):
            sig = 'inspect-omits-ro-id'
    B.hit()
    if B.Ctx.replay:
        B.note(sig=sig, observed=sig, expected='accessors agree with the message')
    return sig is None
