"""C03 - a merge changes only what the message names (no collateral edits)."""
from .cells import Cell, distinct, str_pre
from .h_merge import make_cells
from .p_c04 import mcell, META_CARRIES

PID = 'C03'
ASSUMPTIONS = [
    'unaddressed content (paragraph texts, metadata texts, attribute values) consists of solver '
    'variables compared structurally before/after; the second story of item-level cells repeats the '
    'item IDs of the addressed story',
    'logging disabled; constant hash for symbolic str (stub S2)',
]


def bounds(tier):
    return {'N': 3 if tier == 'quick' else 4, 'sources_k': '<=2' if tier == 'quick' else '<=3', 'carried': '<=2', 'id_length': 1, 'id_alphabet': 'U+0020..U+007E',
            'reference_kinds': 'existing / unknown / blank / absent (where optional) / repeated / target=source'}


def icell(pid, op, N=2, T=60, **extra):
    P = {'N': N, 'op': op}
    P.update(extra)
    sym = [('s%d' % i, 'str') for i in range(N)] + [('c0', 'str')]
    strs = ['s%d' % i for i in range(N)]
    pre = str_pre(strs + ['c0']) + distinct(strs)
    if extra.pop('free_roid', False):
        sym.append(('rd', 'str'))
        pre.append("re.fullmatch('[ -~]{0,3}', rd)")
        extra['roid'] = 'free'
    if extra.get('twice') == 'free':
        sym.append(('rd2', 'str'))
        pre.append("re.fullmatch('[ -~]{0,3}', rd2)")
    cid = '%s/%s/inert/N%d' % (pid, op, N)
    for key, v in extra.items():
        cid += '/%s%s' % (key, v)
    return Cell(pid=pid, cid=cid, harness='h_payload:inert_cell', params=P, sym=sym, pre=pre,
                stubs=('hash',), timeout=T, cost=1)


def cells(tier):
    T = 60 if tier == 'quick' else 600
    out = make_cells(PID, 'frame', tier)
    # IDs of one or two characters (one may be a prefix / suffix of another), unknown and existing references
    pick = lambda op, story_k, tk, sk, nk: story_k in (None, 'existing', 'unknown') and tk in (None, 'existing', 'unknown') \
        and (sk is None or sk in (['existing'], ['unknown'], ['existing', 'unknown'])) and (nk is None or nk == ['fresh'])
    out += make_cells(PID, 'frame', tier, N=3, thin=pick, idlen='1-2', suffix='prefix-ids',
                      ops=['roStoryDelete', 'roStoryReplace', 'roStoryMove', 'roItemDelete', 'roItemReplace', 'EAItemMove',
                           'EAStoryDelete', 'roItemInsert'])
    for carry in META_CARRIES:
        out.append(mcell(PID, 'frame', carry, T=T))
    out.append(mcell(PID, 'frame', ['metaB'], T=T, n_meta=1))
    out.append(mcell(PID, 'frame', ['metaB', 'roEdStart'], T=T, meta_split=True))
    out.append(mcell(PID, 'frame', ['metaX', 'fresh'], T=T, N=3, gap=1))
    # a carried block without a mosSchema (or with a blank one) matches no block that names a schema
    for carry in (['metaNone'], ['metaBlank'], ['metaNone', 'metaA'], ['roEdStart', 'metaBlank']):
        out.append(mcell(PID, 'frame', carry, T=T))
    # nested blocks (inside stories and items) with the same mosSchema as a carried block are not addressed
    for carry, ss, extra in ((['metaA'], 'A', {}), (['metaX'], 'X', {}), (['metaX', 'roEdStart'], 'X', {'n_meta': 0}),
                             (['metaA', 'metaB'], 'A', {'meta_split': True}), (['metaA'], 'A', {'meta_pos': 2})):
        out.append(mcell(PID, 'frame', carry, T=T, story_schema=ss, **extra))
    for N in (1, 3):
        out.append(icell(PID, 'roReadyToAir', N=N, T=T))
        out.append(icell(PID, 'roDelete', N=N, T=T))
    # the same from a state reached through a roReplace (new roCreate element, deep-copied children)
    plain = lambda op, story_k, tk, sk, nk: story_k in (None, 'existing') and tk in (None, 'existing', 'unknown') and \
        (sk is None or sk in (['existing'], ['existing', 'existing'], ['existing', 'unknown'])) and (nk is None or nk == ['fresh'])
    # quick tier: the history / layout variations use one resolvable representative per message shape
    hist = plain if tier == 'thorough' else (lambda op, story_k, tk, sk, nk: plain(op, story_k, tk, sk, nk) and tk in (None, 'existing') and
                                             (sk is None or 'unknown' not in sk))
    out += make_cells(PID, 'frame', tier, N=3, thin=hist, extra={'prehist': True}, suffix='after-roReplace')
    # ... and after a series of refused messages (what a non-strict collection merge leaves behind)
    out += make_cells(PID, 'frame', tier, N=3, thin=hist, extra={'prefail': True}, suffix='after-refused-messages')
    # ... and when every story was re-sent by a roStorySend before
    out += make_cells(PID, 'frame', tier, N=3, thin=hist, extra={'presend': True}, suffix='after-roStorySend-of-every-story')
    out += make_cells(PID, 'frame', tier, N=3, ops=['roStorySend'], extra={'empty_body': True}, suffix='empty-storyBody')
    # mixed content: character data of the parent after stories, items and paragraphs
    out += make_cells(PID, 'frame', tier, N=3, thin=hist, extra={'tails': True}, suffix='mixed-content')
    out += make_cells(PID, 'frame', tier, N=3, thin=hist, extra={'tails': True, 'tail': False, 'trail': 0}, suffix='mixed-content-named-element-last')
    # the smallest shapes: one story / item, and every story / item of the container named by the message
    def small(n):
        def f(op, story_k, tk, sk, nk):
            need = (sk or []).count('existing') + (1 if tk == 'existing' and sk else 0)
            return need <= n and (nk is None or nk in (['fresh'], [])) and story_k in (None, 'existing') and \
                (sk is None or sk in (['existing'], ['existing', 'same'], ['existing', 'unknown'], ['existing', 'existing'], []))
        return f
    out += make_cells(PID, 'frame', tier, N=1, thin=small(1), suffix='single-element')
    out += make_cells(PID, 'frame', tier, N=1, thin=small(1), extra={'tails': True}, suffix='mixed-content-single-element')
    out += make_cells(PID, 'frame', tier, N=2, thin=lambda op, story_k, tk, sk, nk: small(2)(op, story_k, tk, sk, nk) and
                      (sk or []).count('existing') == 2, suffix='all-elements-named')
    # roMetadataReplace into a running order without stories
    from .p_c04 import mcell as _mcell
    for carry in ([], ['fresh'], ['metaX'], ['roEdStart', 'metaA']):
        out.append(_mcell(PID, 'frame', carry, N=0, T=60 if tier == 'quick' else 600, gap=None))
    if tier == 'thorough':
        # one more size: five (and six) stories / items for the resolvable and k-th-unresolvable shapes
        out += make_cells(PID, 'frame', tier, N=5, thin=plain, suffix='N5')
        out += make_cells(PID, 'frame', tier, N=6, thin=lambda op, story_k, tk, sk, nk: plain(op, story_k, tk, sk, nk) and tk in (None, 'existing') and
                          (sk is None or sk == ['existing', 'existing']), suffix='N6')
    return out
