"""C08 - classification is total, and decided only by the message element."""
from .cells import Cell
from .h_classify import TAGS, OPERATIONS, DOCS

PID = 'C08'
ASSUMPTIONS = [
    'documents are trees built around solver-chosen tags/texts and handed to MosFile._classify; the '
    'real parser is exercised in replays, anchors and the truncation cells (expat on concrete prefixes)',
    'no hash stub here: the roElementAction operation is chosen by a symbolic index from a finite list',
]


def bounds(tier):
    return {'decoy_tags': '2 lower-case letters, 2 decoy siblings, every position',
            'free_tag_lengths': [(1, 9), (10, 18)] if tier == 'quick' else [(1, 9), (10, 13), (14, 18), (19, 24)],
            'ea_operations': OPERATIONS, 'warning_filters': ['ignore', 'error'],
            'truncation': 'every cut position of %d documents' % len(DOCS)}


def letters(v, n, lo=97, hi=122):
    return ['len(%s) == %d' % (v, n)] + ['%d <= ord(%s[%d]) <= %d' % (lo, v, i, hi) for i in range(n)]


def cells(tier):
    T = 60 if tier == 'quick' else 600
    out = []
    shapes = ('std', 'empty', 'rich') if tier == 'quick' else ('std', 'empty', 'rich', 'text')
    for tag in TAGS:
        for shape in shapes:
            for lead in ((2,) if tier == 'quick' else (0, 2)):
                for ws in ((False,) if tier == 'quick' else (False, True)):
                    P = {'tag': tag, 'shape': shape, 'lead': lead, 'ws': ws}
                    sym = [('d0', 'str'), ('d1', 'str'), ('c0', 'str'), ('pos', 'int')]
                    pre = letters('d0', 2) + letters('d1', 2) + ['len(c0) == 1', '32 <= ord(c0) <= 126',
                                                                 '0 <= pos <= 2']
                    cid = 'C08/table/%s/%s/lead%d%s' % (tag, shape, lead, '/ws' if ws else '')
                    out.append(Cell(pid=PID, cid=cid, harness='h_classify:table_cell', params=P, sym=sym,
                                    pre=pre, timeout=T, cost=1))
    # decoy siblings from a foreign XML namespace, named like message elements (solver-chosen which)
    for tag in TAGS:
        for shape in (('std',) if tier == 'quick' else ('std', 'rich')):
            P = {'tag': tag, 'shape': shape, 'lead': 2, 'ws': False, 'ns': True}
            sym = [('i', 'int'), ('c0', 'str'), ('pos', 'int')]
            pre = ['0 <= i < %d' % len(TAGS), 'len(c0) == 1', '32 <= ord(c0) <= 126', '0 <= pos <= 2']
            out.append(Cell(pid=PID, cid='C08/table/%s/%s/foreign-namespace-siblings' % (tag, shape), harness='h_classify:table_cell',
                            params=P, sym=sym, pre=pre, timeout=T, cost=4,
                            example={'i': TAGS.index('roDelete' if tag != 'roDelete' else 'roStorySend'), 'c0': 'x', 'pos': 2}))
    for lo, hi in bounds(tier)['free_tag_lengths']:
        P = {'maxlen': hi}
        pre = ["re.fullmatch('[A-Za-z]{%d,%d}', tag)" % (lo, hi)]
        out.append(Cell(pid=PID, cid='C08/free-tag/len%d-%d' % (lo, hi), harness='h_classify:free_tag_cell',
                        params=P, sym=[('tag', 'str')], pre=pre, timeout=max(T, 120), cost=50 + hi,
                        example={'tag': {9: 'roDelete', 13: 'roStoryMove', 18: 'roMetadataReplace',
                                         24: 'roSomethingUnknownHereX'}[hi]}))
    # the ElementAction.from_* entry points are total as well: any other document is an unknown MOS file type
    out.append(Cell(pid=PID, cid='C08/free-tag/ElementAction-entry/len1-18', harness='h_classify:free_tag_cell',
                    params={'maxlen': 18, 'entry': 'ElementAction'}, sym=[('tag', 'str')],
                    pre=["re.fullmatch('[A-Za-z]{1,18}', tag)"], timeout=max(T, 120), cost=60, example={'tag': 'roCreate'}))
    # two recognised message elements in one document
    for i in range(len(TAGS)):
        out.append(Cell(pid=PID, cid='C08/two-message-elements/first-%s' % TAGS[i], harness='h_classify:two_messages_cell',
                        params={}, sym=[('i', 'int'), ('j', 'int'), ('c0', 'str')],
                        pre=['i == %d' % i, '0 <= j < %d' % len(TAGS), 'i != j', 'len(c0) == 1', '32 <= ord(c0) <= 126'],
                        timeout=T, cost=16))
    shapes_t = ('absent', 'empty', 's', 's+i', 's+ii', 'blank-s+blank-i', 'blank-s', 's-then-s+i', 's+i-then-s')
    shapes_s = ('absent', 'empty', 'ids', 'iids', 'stories', 'items', 'sid+iid', 'ids-then-iids', 'iids-then-ids')
    for tshape in shapes_t:
        for sshape in shapes_s:
            P = {'tshape': tshape, 'sshape': sshape}
            sym = [('o', 'int'), ('c0', 'str')]
            pre = ['0 <= o < %d' % len(OPERATIONS), 'len(c0) == 1', '32 <= ord(c0) <= 126']
            out.append(Cell(pid=PID, cid='C08/ea/t-%s/s-%s' % (tshape, sshape), harness='h_classify:ea_cell',
                            params=P, sym=sym, pre=pre, timeout=T, cost=2))
    for tshape in ('s', 's+i', 'blank-s+blank-i', 'empty'):
        for sshape in ('ids', 'iids', 'stories', 'items', 'empty'):
            P = {'tshape': tshape, 'sshape': sshape, 'source_first': True}
            sym = [('o', 'int'), ('c0', 'str')]
            pre = ['0 <= o < %d' % len(OPERATIONS), 'len(c0) == 1', '32 <= ord(c0) <= 126']
            out.append(Cell(pid=PID, cid='C08/ea/t-%s/s-%s/source-before-target' % (tshape, sshape), harness='h_classify:ea_cell',
                            params=P, sym=sym, pre=pre, timeout=T, cost=2))
    for doc in DOCS:
        for part in ('prefix', 'suffix'):
            for by in (False, True):
                if tier == 'quick' and (by or part == 'suffix') and doc != 'roDelete':
                    continue
                P = {'doc': doc, 'part': part, 'bytes': by}
                pre = ['1 <= n < %d' % len(DOCS[doc])] if part == 'prefix' else ['1 <= n <= %d' % len(DOCS[doc])]
                out.append(Cell(pid=PID, cid='C08/truncated/%s/%s%s' % (doc, part, '/bytes' if by else ''),
                                harness='h_classify:truncation_cell', params=P, sym=[('n', 'int')], pre=pre,
                                timeout=max(T, 120), cost=40))
    from .h_classify import BAD_DOCS
    out.append(Cell(pid=PID, cid='C08/malformed/str-bytes-file-agree', harness='h_classify:bad_sources_cell', params={},
                    sym=[('i', 'int')], pre=['0 <= i < %d' % len(BAD_DOCS)], stubs=(), timeout=T, cost=3, example={'i': 0}))
    # "the same from a file, a string or bytes": real files and the real parser on six concrete encodings
    # (document picked by a solver-chosen index: enumeration by forking); shared with C18
    from .h_collect import SOURCE_DOCS
    out.append(Cell(pid=PID, cid='C08/sources/file-bytes-str-s3', harness='h_collect:sources_cell', params={},
                    sym=[('i', 'int')], pre=['0 <= i < %d' % len(SOURCE_DOCS)], stubs=(), timeout=T, cost=3,
                    example={'i': 2}))
    return out
