"""C08 - classification is total and decided only by the message element."""
import re
import warnings

import mosromgr.mostypes as mt
from mosromgr.exc import MosInvalidXML, UnknownMosFileType

from . import build as B
from .build import E, T

TAG_CLASS = {
    'roCreate': 'RunningOrder', 'roStorySend': 'StorySend', 'roStoryAppend': 'StoryAppend',
    'roStoryDelete': 'StoryDelete', 'roStoryInsert': 'StoryInsert', 'roStoryMove': 'StoryMove',
    'roStoryReplace': 'StoryReplace', 'roItemDelete': 'ItemDelete', 'roItemInsert': 'ItemInsert',
    'roItemMoveMultiple': 'ItemMoveMultiple', 'roItemReplace': 'ItemReplace',
    'roReplace': 'RunningOrderReplace', 'roMetadataReplace': 'MetaDataReplace',
    'roReadyToAir': 'ReadyToAir', 'roDelete': 'RunningOrderEnd',
}
TAGS = list(TAG_CLASS) + ['roElementAction']

EA_TABLE = {
    ('REPLACE', False, False): 'EAStoryReplace', ('REPLACE', True, False): 'EAItemReplace',
    ('DELETE', False, False): 'EAStoryDelete', ('DELETE', False, True): 'EAItemDelete',
    ('INSERT', False, False): 'EAStoryInsert', ('INSERT', True, False): 'EAItemInsert',
    ('SWAP', False, False): 'EAStorySwap', ('SWAP', False, True): 'EAItemSwap',
    ('MOVE', False, False): 'EAStoryMove', ('MOVE', True, True): 'EAItemMove',
}
OPERATIONS = ['REPLACE', 'DELETE', 'INSERT', 'SWAP', 'MOVE', 'replace', 'COPY', '', None]


ENTRY = ['MosFile']


def classify_under(root, mode):
    """Classify a tree (symbolic mode) or its serialisation (replay) under a warning filter.
    Returns ('ok', class name) or ('exc', exception)."""
    with warnings.catch_warnings():
        warnings.simplefilter(mode)
        try:
            cls = getattr(mt, ENTRY[0])
            if B.Ctx.replay:
                text = B.doc_text(root)
                B.Ctx.docs.append(text)
                obj = cls.from_string(text)
                # "the same from ... a string or bytes", under the same warning filter
                try:
                    ob = cls.from_string(text.encode('utf-8'))
                    if type(ob) is not type(obj):
                        return ('ok', 'bytes:%s-but-str:%s' % (type(ob).__name__, type(obj).__name__))
                except Exception as eb:
                    return ('ok', 'bytes:raised-%s-but-str:%s' % (type(eb).__name__, type(obj).__name__))
            else:
                obj = cls._classify(root)
            return ('ok', type(obj).__name__)
        except Exception as e:
            if B.Ctx.replay:
                try:
                    ob = cls.from_string(text.encode('utf-8'))
                    return ('ok', 'bytes:%s-but-str:raised-%s' % (type(ob).__name__, type(e).__name__))
                except Exception as eb:
                    if type(eb) is not type(e):
                        return ('ok', 'bytes:raised-%s-but-str:raised-%s' % (type(eb).__name__, type(e).__name__))
            return ('exc', e)


WEAK = [False]


def verdict(results, want):
    """want: class name or None (= UnknownMosFileType expected).  In weak mode (the C12 reading of the same
    cells) only the exception type matters: a class, or a MosRoMgrException subclass."""
    if WEAK[0]:
        from mosromgr.exc import MosRoMgrException
        for mode, (kind, val) in results.items():
            if kind == 'exc' and not isinstance(val, MosRoMgrException):
                return '%s-filter:escaped-%s' % (mode, type(val).__name__)
        return None
    for mode, (kind, val) in results.items():
        if want is None:
            if not (kind == 'exc' and type(val) is UnknownMosFileType):
                return '%s-filter:%s-instead-of-UnknownMosFileType' % (
                    mode, val if kind == 'ok' else type(val).__name__)
        else:
            if kind != 'ok':
                return '%s-filter:%s-instead-of-%s' % (mode, type(val).__name__, want)
            if val != want:
                return '%s-filter:%s-instead-of-%s' % (mode, val, want)
    return None


def report(results, want, sig):
    if B.Ctx.replay:
        B.note(observed={m: (v if k == 'ok' else B.conc(v)) for m, (k, v) in results.items()},
               expected=want or 'UnknownMosFileType', sig=sig)


def base_element(tag, shape, A):
    """The message element with different amounts of content."""
    c = A.get('c0', 'x')
    if shape == 'empty':
        return E(tag)
    if shape == 'text':
        return E(tag, text=c)
    if tag == 'roElementAction':
        return E(tag, T('roID', c), E('element_target', T('storyID', 'S')),
                 E('element_source', T('storyID', 'A')), operation='MOVE')
    if shape == 'rich':
        # nested decoys named like message elements (also ones that come EARLIER in the class table): only the
        # direct children of <mos> decide
        return E(tag, T('roID', c), T('storyID', c),
                 E('story', T('storyID', 'S'), T('p', c),
                   E('mosExternalMetadata', E('mosPayload', E('roCreate', T('roID', 'deep')), E('roStorySend', T('roID', 'deep')),
                                              E('roDelete', T('roID', 'deep'))))),
                 E('roElementAction', T('roID', 'decoy')))
    return E(tag, T('roID', c))


def table_cell(P, A):
    """(a) the known element among decoy siblings with solver-chosen tags, any position."""
    WEAK[0] = bool(P.get('weak'))
    tag = P['tag']
    if P.get('ns'):
        # siblings from a vendor namespace whose LOCAL names are message-element names: {uri}roCreate is not roCreate
        d0, d1 = '{urn:x-vendor}' + TAGS[A['i']], '{urn:x-vendor}roCreate'
    else:
        d0, d1 = A['d0'], A['d1']
    pos = A['pos']
    kids = [T('mosID', 'm'), T('messageID', '7')]
    base = base_element(tag, P['shape'], A)
    decoys = [E(d0, T('roID', 'zz')), E(d1, text=A.get('c0', 'x'))]
    seq = decoys[:pos] + [base] + decoys[pos:]
    root = E('mos', *(kids[:P.get('lead', 2)] + seq + kids[P.get('lead', 2):]))
    if P.get('ws'):
        root.text = '\n  '
        for k in root:
            k.tail = '\n  '
    want = TAG_CLASS.get(tag)
    if tag == 'roElementAction':
        want = 'EAStoryMove' if P['shape'] not in ('empty', 'text') else None
    results = {m: classify_under(root, m) for m in ('ignore', 'error')}
    B.hit()
    sig = verdict(results, want)
    report(results, want, sig)
    return sig is None


def two_messages_cell(P, A):
    """Two recognised message elements in one document: whatever class the library picks, it picks the same one
    under every warning configuration, and nothing but a MosRoMgrException may escape."""
    from mosromgr.exc import MosRoMgrException
    t1, t2 = TAGS[A['i']], TAGS[A['j']]
    root = E('mos', T('mosID', 'm'), T('messageID', '7'), base_element(t1, 'std', A), base_element(t2, 'std', A))
    results = {m: classify_under(root, m) for m in ('ignore', 'error', 'always')}
    B.hit()
    sig = None
    ref = results['ignore']
    for mode, (kind, val) in results.items():
        if kind == 'exc' and not isinstance(val, MosRoMgrException):
            sig = '%s-filter:escaped-%s' % (mode, type(val).__name__)
        elif kind != ref[0] or (kind == 'ok' and val != ref[1]) or (kind == 'exc' and type(val) is not type(ref[1])):
            sig = 'outcome-depends-on-warning-filter'
    if sig is None and ref[0] == 'ok' and ref[1] not in (TAG_CLASS.get(t1, 'EAStoryMove'), TAG_CLASS.get(t2, 'EAStoryMove')):
        sig = 'class-of-neither-element'
    if B.Ctx.replay:
        B.note(sig=sig, observed={m: (v if k == 'ok' else B.conc(v)) for m, (k, v) in results.items()},
               expected='the same outcome under every warning filter', tags=[t1, t2])
    return sig is None


def free_tag_cell(P, A):
    """(b) a single top-level element with a solver-chosen tag: a class iff the tag is a known one."""
    WEAK[0] = bool(P.get('weak'))
    tag = A['tag']
    root = E('mos', T('mosID', 'm'), T('messageID', '7'), E(tag, T('roID', 'r')))
    ENTRY[0] = P.get('entry', 'MosFile')
    try:
        results = {m: classify_under(root, m) for m in ('ignore', 'error')}
    finally:
        ENTRY[0] = 'MosFile'
    B.hit()
    want = None
    for known in TAGS:
        if len(known) <= P['maxlen'] and tag == known:
            want = TAG_CLASS.get(known)
    if P.get('entry') == 'ElementAction':
        want = None      # the ElementAction entry point recognises roElementAction only (and this one has no source)
    sig = verdict(results, want)
    report(results, want, sig)
    return sig is None


def ea_cell(P, A):
    """(c) roElementAction: class per the documented (operation, target item?, source item?) table."""
    WEAK[0] = bool(P.get('weak'))
    op = OPERATIONS[A['o']]
    tshape = P['tshape']      # 'absent' | 'empty' | 's' | 's+i' | 's+ii' | 'blank-s+blank-i'
    sshape = P['sshape']      # 'absent' | 'empty' | 'ids' | 'iids' | 'stories' | 'items' | 'sid+iid'
    sid = A.get('c0', 'S')
    kids = [T('roID', 'r')]
    if tshape != 'absent':
        tk = {'empty': [], 's': [T('storyID', sid)], 's+i': [T('storyID', sid), T('itemID', sid)],
              's-then-s+i': [T('storyID', sid)], 's+i-then-s': [T('storyID', sid), T('itemID', sid)],
              's+ii': [T('storyID', sid), T('itemID', sid), T('itemID', 'j')],
              'blank-s+blank-i': [T('storyID', None), T('itemID', None)],
              'blank-s': [T('storyID', None)]}[tshape]
        kids.append(E('element_target', *tk))
        # a second element_target: the first one is the one the accessors and the merge use, so it decides
        if tshape == 's-then-s+i':
            kids.append(E('element_target', T('storyID', sid), T('itemID', 'second')))
        if tshape == 's+i-then-s':
            kids.append(E('element_target', T('storyID', 'second')))
    if sshape != 'absent':
        sk = {'empty': [], 'ids': [T('storyID', 'a'), T('storyID', sid)],
              'iids': [T('itemID', 'a'), T('itemID', sid)],
              'stories': [E('story', T('storyID', sid), E('item', T('itemID', 'nested')))],
              'items': [E('item', T('itemID', sid))],
              'sid+iid': [T('storyID', 'a'), T('itemID', sid)],
              'ids-then-iids': [T('storyID', 'a'), T('storyID', sid)], 'iids-then-ids': [T('itemID', 'a'), T('itemID', sid)]}[sshape]
        kids.append(E('element_source', *sk))
        if sshape == 'ids-then-iids':
            kids.append(E('element_source', T('itemID', 'second')))
        if sshape == 'iids-then-ids':
            kids.append(E('element_source', T('storyID', 'second')))
    if P.get('source_first') and len(kids) >= 3:
        # sibling order is free: element_source before element_target (and both before the roID)
        kids = kids[2:] + [kids[1], kids[0]]
    attrib = {} if op is None else {'operation': op}
    if P.get('extra_attr'):
        attrib['zz'] = 'REPLACE'
    root = E('mos', T('mosID', 'm'), T('messageID', '7'), E('roElementAction', *kids, **attrib))
    results = {m: classify_under(root, m) for m in ('ignore', 'error')}
    B.hit()
    t_item = tshape in ('s+i', 's+ii', 'blank-s+blank-i', 's+i-then-s')
    s_item = sshape in ('iids', 'sid+iid', 'iids-then-ids')
    want = EA_TABLE.get((op, t_item, s_item)) if sshape != 'absent' else None
    sig = verdict(results, want)
    report(results, want, sig)
    return sig is None


DOCS = {
    'roStoryMove': '<mos><mosID>m</mosID><messageID>5</messageID><roStoryMove><roID>r</roID>'
                   '<storyID>a</storyID><storyID>b</storyID></roStoryMove></mos>',
    'roElementAction': '<mos><messageID>5</messageID><roElementAction operation="SWAP"><roID>r</roID>'
                       '<element_source><storyID>a</storyID><storyID>b</storyID></element_source>'
                       '</roElementAction></mos>',
    'roDelete': '<mos><messageID>5</messageID><roDelete><roID>r</roID></roDelete></mos>',
}


BAD_DOCS = [
    ('space-before-declaration', ' \n<?xml version="1.0" encoding="UTF-8"?><mos><messageID>1</messageID><roDelete><roID>r</roID></roDelete></mos>'),
    ('text-after-root', '<mos><messageID>1</messageID><roDelete><roID>r</roID></roDelete></mos>trailing'),
    ('two-roots', '<mos><messageID>1</messageID><roDelete><roID>r</roID></roDelete></mos><mos/>'),
    ('empty', ''),
    ('only-whitespace', '  \n'),
    ('unclosed', '<mos><messageID>1</messageID><roDelete><roID>r</roDelete></mos>'),
]


def bad_sources_cell(P, A):
    """Malformed text raises MosInvalidXML from every entry point alike (str, bytes, file)."""
    import os
    import tempfile
    name, text = BAD_DOCS[A['i']]
    tmp = os.path.join(tempfile.gettempdir(), 'vbad_%d' % os.getpid())
    os.makedirs(tmp, exist_ok=True)
    path = os.path.join(tmp, name + '.xml')
    with open(path, 'wb') as f:
        f.write(text.encode('utf-8'))
    res = {'str': B.call(mt.MosFile.from_string, text), 'bytes': B.call(mt.MosFile.from_string, text.encode('utf-8')),
           'file': B.call(mt.MosFile.from_file, path)}
    os.remove(path)
    B.hit()
    sig = None
    for k, o in res.items():
        if not (o.raised and type(o.exc) is MosInvalidXML):
            sig = '%s-%s-instead-of-MosInvalidXML' % (k, type(o.exc).__name__ if o.raised else type(o.result).__name__)
            break
    if B.Ctx.replay:
        B.note(sig=sig, observed={k: (B.conc(o.exc) if o.raised else type(o.result).__name__) for k, o in res.items()},
               expected='MosInvalidXML from every source', document=name)
    return sig is None


def truncation_cell(P, A):
    """(d) every proper prefix of a well-formed document is malformed XML -> MosInvalidXML
    (the cut position is a solver variable; expat runs on the concrete prefix of each path)."""
    doc = DOCS[P['doc']]
    n = A['n']
    text = doc[:n] if P.get('part', 'prefix') == 'prefix' else doc[n:]
    if P.get('bytes'):
        text = text.encode('utf-8')
    out = B.call(mt.MosFile.from_string, text)
    B.hit()
    ok = out.raised and type(out.exc) is MosInvalidXML
    if B.Ctx.replay:
        B.Ctx.docs.append(repr(text))
        B.note(observed=B.conc(out.exc) if out.raised else type(out.result).__name__,
               expected='MosInvalidXML', sig=None if ok else 'malformed-not-MosInvalidXML')
    return ok
