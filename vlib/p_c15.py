"""C15 - read accessors never raise and agree with the XML in every reachable state."""
import itertools
from .cells import Cell, distinct, str_pre

PID = 'C15'
ASSUMPTIONS = [
    'stories have a storyID and items an itemID; roID, roSlug and messageID are present (required by the '
    'MOS schema); durations are integers, timestamps come from a list of 3 concrete ISO strings',
    'stubs: constant hash for symbolic str (S2), number passthrough (S3), timestamp lookup (S10)',
]
FLAGS = ('sl', 'it', 'isl', 'io', 'im', 'ity', 'in')


def bounds(tier):
    return {'stories_N': '1..3', 'optional_elements': 'storySlug, second item, itemSlug, objID, mosID, objType, '
            'note, timing variant, StoryStarted, roEdStart present/blank/absent',
            'symbolic_flags_per_cell': 2, 'id_length': 1}


def mk(variants, flagsets, sym_flags=(), edstart='present', pre_op=None, started=None, T=60, tag='', unique=True, stamps=None):
    N = len(variants)
    flags = {}
    for i, fs in enumerate(flagsets):
        for k in fs:
            flags['%s%d' % (k, i)] = True
    P = {'N': N, 'variants': list(variants), 'flags': flags, 'edstart': edstart, 'pre_op': pre_op,
         'started': started or [None] * N}
    if stamps:
        P['edstamp'], P['ststamp'] = stamps
        tag = (tag + '-' if tag else '') + 'zone-ed%d-st%d' % stamps
    sym = [('s%d' % i, 'str') for i in range(N)] + [('i0', 'str'), ('c0', 'str'), ('c1', 'str'), ('c2', 'str')]
    strs = ['s%d' % i for i in range(N)]
    if pre_op and pre_op != 'roreplace':
        sym.append(('n0', 'str'))
        strs.append('n0')
    # story IDs are not required to be unique (roStoryAppend does not de-duplicate): in the 'dup-ids' cells the
    # solver may make them equal, and the listing must still follow the document
    pre = str_pre(strs + ['i0', 'c0', 'c1', 'c2']) + (distinct(strs) if unique else [])
    for fl in sym_flags:
        sym.append((fl, 'bool'))
        flags.pop(fl, None)
    cid = 'C15/%s/%s/ed-%s' % (','.join(variants), '|'.join('+'.join(fs) or '-' for fs in flagsets), edstart)
    if sym_flags:
        cid += '/sym-' + '+'.join(sym_flags)
    if pre_op:
        cid += '/after-' + pre_op
    if not unique:
        cid += '/dup-ids'
    if tag:
        cid += '/' + tag
    return Cell(pid=PID, cid=cid, harness='h_access:accessor_cell', params=P, sym=sym, pre=pre,
                stubs=('hash', 'float', 'parse'), timeout=T, cost=2 ** len(sym_flags) * N)


def cells(tier):
    T = 60 if tier == 'quick' else 600
    out = []
    ALL = list(FLAGS)
    V = ['none', 'SD', 'TT+MT', 'MT', 'block-empty']
    # one story: every optional element alone, all, none; x timing variant
    for v in V:
        out.append(mk([v], [ALL], T=T))
        out.append(mk([v], [[]], T=T))
    for fl in FLAGS:
        out.append(mk(['SD'], [[fl]], T=T))
        out.append(mk(['none'], [[x for x in ALL if x != fl]], T=T))
    for ed in ('absent', 'blank'):
        out.append(mk(['SD'], [ALL], edstart=ed, T=T))
        out.append(mk(['none'], [[]], edstart=ed, T=T))
    # two / three stories with mixed timing (the TypeError region) and solver-chosen flags
    for a, b in itertools.product(['none', 'SD', 'TT+MT'], repeat=2):
        out.append(mk([a, b], [['sl', 'it'], ['isl', 'in']], sym_flags=('sl1', 'io0'), T=T))
    for tr in (('SD', 'none', 'SD'), ('none', 'none', 'SD'), ('SD', 'SD', 'none'), ('MT', 'SD', 'TT+MT')):
        out.append(mk(list(tr), [ALL, [], ['sl']], T=T))
        out.append(mk(list(tr), [[], ALL, ['in', 'io']], edstart='absent', T=T))
    out.append(mk(['SD', 'none'], [ALL, ALL], started=[None, 1], T=T))
    out.append(mk(['SD', 'TT+MT'], [ALL, []], started=[None, 1], T=T))       # the last story has its own start
    out.append(mk(['MT', 'SD', 'SD'], [[], ['sl'], ALL], started=[None, None, 1], T=T))
    out.append(mk(['none', 'SD'], [[], []], started=[1, None], edstart='absent', T=T))
    out.append(mk(['SD', 'TT+MT'], [['sl'], ['sl', 'it']], unique=False, T=T))
    out.append(mk(['SD', 'none', 'MT'], [['sl'], [], ALL], unique=False, T=T))
    out.append(mk(['SD', 'SD'], [ALL, []], pre_op='append-timed', unique=False, T=T))
    out.append(mk(['SD', 'TT+MT'], [['sl'], ALL], pre_op='roreplace', T=T))
    out.append(mk(['none', 'SD', 'MT'], [ALL, [], ['sl', 'in']], pre_op='roreplace', edstart='absent', T=T))
    # a running order without any story (sent empty, or emptied by deletes)
    for ed in ('present', 'absent'):
        out.append(mk([], [], edstart=ed, T=T))
    # zone designators: an aware roEdStart next to naive story stamps, the reverse, and both aware
    for stamps in ((3, 1), (0, 4), (3, 4)):
        out.append(mk(['SD', 'TT+MT'], [ALL, []], started=[None, 1], stamps=stamps, T=T))
        out.append(mk(['SD', 'none', 'MT'], [['sl'], [], ALL], started=[1, None, None], stamps=stamps, T=T))
        out.append(mk(['SD', 'TT+MT'], [['sl'], ALL], pre_op='replace-timed', started=[None, 1], stamps=stamps, T=T))
    # states reached by merges that insert / append / replace / send stories with or without timing
    for op in ('append-timed', 'append-untimed', 'insert-timed', 'insert-untimed', 'replace-timed',
               'replace-untimed', 'send-timed', 'send-untimed', 'eainsert-untimed', 'eainsert-timed'):
        out.append(mk(['SD', 'TT+MT'], [['sl'], ALL], pre_op=op, T=T))
        out.append(mk(['none', 'SD'], [ALL, []], pre_op=op, edstart='absent', T=T))
    return out
