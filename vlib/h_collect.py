"""Collections, readers, S3 and sources: C09, C10, C11, C18 (+ history clauses of C05, C07, C12).

Stub S4 (parser): in symbolic mode a document is a *handle* (a short concrete string or path); the
name ``ElementTree`` inside mosromgr.mostypes is replaced by a namespace whose fromstring/parse map
the handle to a FRESH tree built from the registered builder (contract: parsing the same content
twice yields equal, unshared trees), or raise ParseError / OSError for the failure handles.  In
replay mode no stub is installed: handles are real XML texts / real temporary files.
Stub S6 (S3): a fake client/resource is assigned to the lazy handle mosromgr.utils.s3.s3.
"""
import importlib
import itertools
import os
import shutil
import sys
import tempfile
import warnings
from xml.etree import ElementTree as RealET

from . import build as B
from . import msgs as M
from .build import E, T


# ---------------------------------------------------------------------------------------
# the code under test, default build or compiled with optimize=1 (stub S8 = python -O)
# ---------------------------------------------------------------------------------------

class _OLoader(importlib.machinery.SourceFileLoader):
    def get_code(self, fullname):
        path = self.get_filename(fullname)
        return compile(self.get_data(path), path, 'exec', dont_inherit=True, optimize=1)


class _OFinder:
    def __init__(self, alias, root):
        self.alias, self.root = alias, root

    def find_spec(self, name, path=None, target=None):
        if name != self.alias and not name.startswith(self.alias + '.'):
            return None
        rel = name[len(self.alias):].lstrip('.').split('.') if name != self.alias else []
        base = os.path.join(self.root, *rel)
        if os.path.isdir(base):
            return importlib.util.spec_from_file_location(
                name, os.path.join(base, '__init__.py'), loader=_OLoader(name, os.path.join(base, '__init__.py')),
                submodule_search_locations=[base])
        return importlib.util.spec_from_file_location(name, base + '.py', loader=_OLoader(name, base + '.py'))


_pkgs = {}


def package(opt=False):
    """(mostypes, moscollection, s3 module, exc) of the default build or of the optimize=1 build of
    the CURRENT source of the package."""
    key = 'O' if opt else 'D'
    if key not in _pkgs:
        if not opt:
            name = 'mosromgr'
        else:
            import mosromgr
            root = os.path.dirname(os.path.abspath(mosromgr.__file__))
            name = 'mosromgr_O1'
            sys.meta_path.insert(0, _OFinder(name, root))
        _pkgs[key] = tuple(importlib.import_module(name + m) for m in
                           ('.mostypes', '.moscollection', '.utils.s3', '.exc', '.cli'))
    return _pkgs[key]


# ---------------------------------------------------------------------------------------
# the document universe of one harness run
# ---------------------------------------------------------------------------------------

class _Parsed:
    def __init__(self, root):
        self._root = root

    def getroot(self):
        return self._root


class FakeBody:
    def __init__(self, data):
        self.data = data

    def read(self):
        return self.data


class World:
    def __init__(self, opt=False, parser_stub=True):
        self.mt, self.mc, self.s3, self.exc, self.cli = package(opt)
        self.replay = B.Ctx.replay or not parser_stub
        self.builders = {}        # handle -> builder of a fresh root (symbolic mode)
        self.fail = {}            # handle -> exception factory
        self.n = 0
        self.tmp = None
        self.pages = []           # S3 listing pages
        self.objects = {}         # S3 key -> handle / text
        self._undo = []

    # -- documents ---------------------------------------------------------------------
    def doc(self, builder, kind='string', name=None):
        """Register a document; returns what the caller passes to the library (text, path or key)."""
        self.n += 1
        if kind == 'string':
            if self.replay:
                text = B.doc_text(B.raw(builder))
                if getattr(self, 'decl', None) and not text.startswith('<?xml'):
                    # a str keeps the declaration of the file it was read from (the text itself is already decoded)
                    text = '<?xml version="1.0" encoding="%s"?>\n' % self.decl + text
                B.Ctx.docs.append(text)
                return text
            h = 'doc%d' % self.n
            self.builders[h] = builder
            return h
        if kind == 'file':
            name = name or 'f%d.mos.xml' % self.n
            if self.replay:
                path = os.path.join(self._tmpdir(), name)
                os.makedirs(os.path.dirname(path), exist_ok=True)
                text = B.doc_text(B.raw(builder))
                B.Ctx.docs.append(text)
                with open(path, 'w', encoding='utf-8') as f:
                    f.write(text)
                return path
            h = '/virtual/' + name
            self.builders[h] = builder
            return h
        if kind == 's3':
            key = name or 'prefix/k%d.mos.xml' % self.n
            if self.replay:
                text = B.doc_text(B.raw(builder))
                B.Ctx.docs.append(text)
                self.objects[key] = text
            else:
                h = 'doc%d' % self.n
                self.builders[h] = builder
                self.objects[key] = h
            return key
        raise ValueError(kind)

    def bad_file(self, why, name=None):
        """A path that cannot be read as MOS: 'missing' | 'directory' | 'malformed' | 'unknown-xml'"""
        self.n += 1
        name = name or 'bad%d.mos.xml' % self.n
        if self.replay:
            path = os.path.join(self._tmpdir(), name)
            if why == 'missing':
                return path
            if why == 'directory':
                os.makedirs(path, exist_ok=True)
                return path
            with open(path, 'w') as f:
                f.write('<mos><roCreate>' if why == 'malformed' else '<html><body>x</body></html>')
            return path
        h = '/virtual/' + name
        if why == 'missing':
            self.fail[h] = lambda: FileNotFoundError(2, 'No such file or directory', h)
        elif why == 'directory':
            self.fail[h] = lambda: IsADirectoryError(21, 'Is a directory', h)
        elif why == 'malformed':
            self.fail[h] = lambda: RealET.ParseError('unclosed token: line 1, column 5')
        else:
            self.builders[h] = lambda: E('html', E('body', text='x'))
        return h

    def _tmpdir(self):
        if self.tmp is None:
            self.tmp = tempfile.mkdtemp(prefix='vreplay_')
        return self.tmp

    # -- stubs ---------------------------------------------------------------------------
    def _fresh(self, h):
        if h in self.fail:
            raise self.fail[h]()
        if h not in self.builders:
            raise RealET.ParseError('syntax error: line 1, column 0')
        return B.raw(self.builders[h])

    def __enter__(self):
        mt = self.mt
        if not self.replay:
            world = self

            class FakeET:
                ParseError = RealET.ParseError
                tostring = staticmethod(RealET.tostring)

                @staticmethod
                def fromstring(h):
                    return world._fresh(h)

                @staticmethod
                def parse(h):
                    return _Parsed(world._fresh(str(h)))
            real = mt.ElementTree
            mt.ElementTree = FakeET
            self._undo.append(lambda: setattr(mt, 'ElementTree', real))
        # S3 (both modes: there is no real boto3 endpoint)
        world = self
        holder = self.s3.s3

        class Paginator:
            def paginate(self, **kw):
                world.paginate_args = kw
                return iter(world.pages)

        class Client:
            def get_paginator(self, what):
                world.paginator_kind = what
                return Paginator()

        class Obj:
            def __init__(self, bucket, key):
                self.key = key

            def get(self):
                if self.key not in world.objects:
                    raise KeyError(self.key)
                return {'Body': FakeBody(world.objects[self.key])}

        class Resource:
            def Object(self, bucket, key):
                return Obj(bucket, key)
        old = (holder._client, holder._resource)
        holder._client, holder._resource = Client(), Resource()
        self._undo.append(lambda: (setattr(holder, '_client', old[0]), setattr(holder, '_resource', old[1])))
        return self

    def __exit__(self, *a):
        for u in reversed(self._undo):
            u()
        self._undo = []
        if self.tmp:
            shutil.rmtree(self.tmp, ignore_errors=True)
            self.tmp = None


def own(rec, exc_mod):
    return [w for w in rec if issubclass(w.category, exc_mod.MosRoMgrWarning)]


def call(fn, exc_mod):
    out = B.Outcome()
    with warnings.catch_warnings(record=True) as rec:
        warnings.simplefilter('always')
        try:
            out.result = fn()
        except Exception as e:
            out.exc = e
    out.warns = own(rec, exc_mod)
    return out


# ---------------------------------------------------------------------------------------
# message menu for histories
# ---------------------------------------------------------------------------------------

def ro_builder(ids, mid, ro_id='RO', lead=2, completed=False):
    def build():
        stories = [B.story(s, slug='ss', timing=B.timing_block(dur='10'), body=[B.item('I0'), T('p', 'x')]) for s in ids]
        root = B.ro_tree(stories, lead=lead, msg_id=mid, ro_id=ro_id, ro_slug='sl\u00fcg \u20ac')
        if completed:       # a merged, completed running order used again as the roCreate of a collection
            root.append(E('mosromgrmeta', E('roDelete', T('roID', ro_id))))
        return root
    return build


def msg_builder(kind, ref, mid, new_id=None, ro_id='RO', slot=None):
    """kind: message type; ref: the story ID it refers to (existing or unknown -> fails/warns)."""
    def build():
        kw = {'msg_id': mid, 'ro_id': ro_id}
        if kind == 'roStoryDelete':
            return M.story_delete([ref], **kw)
        if kind == 'roStoryMove':
            return M.story_move(ref, None, **kw)
        if kind == 'roStoryReplace':
            return M.story_replace(ref, [B.story(new_id, slug='n', timing=B.timing_block(dur='4'), body=[T('p', 'n')])], **kw)
        if kind == 'roStoryInsert':
            return M.story_insert(ref, [B.story(new_id, slug='n', timing=B.timing_block(dur='4'), body=[T('p', 'n')])], **kw)
        if kind == 'roStoryAppend':
            return M.story_append([B.story(new_id, slug='n', timing=B.timing_block(dur='4'), body=[T('p', 'n')])], **kw)
        if kind == 'roItemInsert':
            return M.item_insert(ref, None, [B.item(new_id or 'NI')], **kw)
        if kind == 'roItemDelete':
            return M.item_delete(ref, ['I0'], **kw)
        if kind == 'EAStorySwap':
            return M.ea_story_swap(ref, ref, **kw)
        if kind == 'EAStoryMove':
            return M.ea_story_move(M.ABSENT, [ref], **kw)
        if kind == 'roStorySend':
            return M.story_send(ref, body=[T('p', 'sent' if slot is None else 'sent by message %d' % slot)],
                                pre=[B.timing_block(dur='6')], **kw)
        if kind == 'roDelete':
            return M.ro_delete(**kw)
        if kind == 'roReadyToAir':
            return M.ready_to_air(**kw)
        if kind == 'roMetadataReplace':
            return M.metadata_replace([T('roSlug', 'changed'), T('roChannel', mid)], **kw)
        if kind == 'roReplace':
            return M.ro_replace([T('roSlug', 'replaced'), B.story(ref, slug='kept', timing=B.timing_block(dur='3'),
                                                                 body=[B.item('I0'), T('p', 'r')])], **kw)
        raise ValueError(kind)
    return lambda: B.raw(build)


def _with_ncs(builder, ncs):
    def build():
        B.Ctx.ncs_id = ncs
        try:
            return B.raw(builder)
        finally:
            B.Ctx.ncs_id = None
    return build


def collection_cell(P, A):
    """C09/C10: MosCollection.merge == adding the freshly read messages one by one in ascending
    numeric message-ID order; strict / non-strict; any supply order; three constructors."""
    kinds = P['kinds']                    # message type per slot
    k = len(kinds)
    src = P.get('source', 'string')       # string | file | s3
    strict = P['strict']
    perm = P.get('perm') or list(range(k + 1))
    N = 3
    ids = [A['s%d' % i] for i in range(N)]
    x = A.get('x')
    mids = [A['m%d' % j] if ('m%d' % j) in A else P['mids'][j] for j in range(k)]
    rc_mid = A['m_rc'] if 'm_rc' in A else P.get('rc_mid', '1')
    sig = None
    with World(opt=P.get('opt', False)) as W:
        mt, mc_mod, exc = W.mt, W.mc, W.exc
        W.decl = P.get('decl')
        handles = [W.doc(ro_builder(ids, rc_mid, completed=bool(P.get('rc_completed'))), kind=src)]
        ncs = P.get('ncs_ids')
        for j, kind in enumerate(kinds):
            fails = A.get('f%d' % j, False) if P.get('may_fail', True) else False
            refs = P.get('refs') or [0, 1, 2, 0]
            r_ = refs[j % len(refs)]
            # 'n<i>': the story that message i brings in (which may be numbered later: then this message fails)
            ref = x if fails else (A[r_] if isinstance(r_, str) else ids[r_ % N])
            b = msg_builder(kind, ref, mids[j], new_id=A.get('n%d' % j), slot=j if P.get('refs') else None)
            if ncs:
                b = _with_ncs(b, ncs[j])
            name = None
            if P.get('same_basename') and src == 'file':
                name = 'dir%d/message.mos.xml' % j       # different files that share their base name
            handles.append(W.doc(b, kind=src, name=name))
        supplied = [handles[i] for i in perm]
        if src == 's3':
            W.pages = [{'Contents': [{'Key': h} for h in supplied]}]
        # ---- the specification: a hand fold over freshly read messages -----------------------
        read = {'string': mt.MosFile.from_string, 'file': mt.MosFile.from_file,
                's3': lambda key: mt.MosFile.from_s3('bucket', key)}[src]
        ro_f = read(handles[0])
        supplied_msgs = [i - 1 for i in perm if i != 0]
        order = sorted(supplied_msgs, key=lambda j: int(mids[j]))     # stable: ties keep the supplied order
        fold_exc, n_fail = None, 0
        with warnings.catch_warnings(record=True) as rec_f:
            warnings.simplefilter('always')
            for j in order:
                m = read(handles[1 + j])
                try:
                    ro_f = ro_f + m
                except exc.MosMergeError as e:
                    n_fail += 1
                    if strict:
                        fold_exc = e
                        break
        fold_warn = [w.category.__name__ for w in own(rec_f, exc)]
        # ---- the collection ------------------------------------------------------------------
        def build():
            if src == 'string':
                return mc_mod.MosCollection.from_strings(supplied, allow_incomplete=True)
            if src == 'file':
                return mc_mod.MosCollection.from_files(supplied, allow_incomplete=True)
            return mc_mod.MosCollection.from_s3(bucket_name='bucket', prefix='prefix/', allow_incomplete=True)
        made = call(build, exc)
        if made.raised:
            sig = 'construction-raised-' + type(made.exc).__name__
        else:
            mc = made.result
            pre_completed = B.call(lambda: (mc.completed, mc.ro.completed))
            got_ids = [mr.message_id for mr in mc.mos_readers]
            want_ids = [int(mids[j]) for j in order]
            out = call(lambda: mc.merge(strict=strict), exc)
            B.hit()
            ns = [w for w in out.warns if w.category.__name__ == 'MosMergeNonStrictWarning']
            others = [w.category.__name__ for w in out.warns if w.category.__name__ != 'MosMergeNonStrictWarning']
            if P.get('readback'):
                pass        # C14 cells: only the read-back criterion below is judged here (the fold is C09's)
            elif pre_completed.raised or pre_completed.result != (bool(P.get('rc_completed')),) * 2:
                sig = 'completed-before-any-merge'
            elif got_ids != want_ids:
                sig = 'readers-not-in-ascending-numeric-order'
            elif strict and fold_exc is not None and not (out.raised and type(out.exc) is type(fold_exc)):
                sig = 'strict-error-not-propagated'
            elif (not strict or fold_exc is None) and out.raised:
                sig = 'merge-raised-' + type(out.exc).__name__
            elif B.snap(mc.ro.xml) != B.snap(ro_f.xml):
                sig = 'result-differs-from-one-by-one-addition'
            elif not strict and len(ns) != n_fail:
                sig = 'nonstrict-warnings-%d-for-%d-failures' % (len(ns), n_fail)
            elif strict and ns:
                sig = 'nonstrict-warning-in-strict-mode'
            elif sorted(others) != sorted(fold_warn):
                sig = 'other-warnings-differ'
            elif mc.completed != mc.ro.completed or (B.Ctx.replay and str(mc) != str(mc.ro)):
                sig = 'collection-accessors-disagree-with-ro'
            if sig is None and P.get('readback'):
                # C14: what the collection holds after the merge (complete or not, whatever failed) still is one
                # running order that serialises and reads back identically
                from .h_merge import envelope_ok
                sig = envelope_ok(mc.ro, rc_mid, 'RO')
                if sig is None and B.Ctx.replay:
                    text = str(mc)
                    back = B.call(lambda: mt.MosFile.from_string(text))
                    if back.raised:
                        sig = 'merged-collection-does-not-read-back-' + type(back.exc).__name__
                    elif str(back.result) != text or type(back.result).__name__ != 'RunningOrder' or \
                            back.result.completed != mc.ro.completed:
                        sig = 'merged-collection-reads-back-differently'
            if B.Ctx.replay:
                B.note(observed={'reader_ids': got_ids, 'raised': B.conc(out.exc), 'nonstrict_warnings': len(ns),
                                 'stories': B.story_ids(mc.ro)},
                       expected={'reader_ids': want_ids, 'raised': B.conc(fold_exc), 'failures': n_fail,
                                 'stories': B.story_ids(ro_f)})
        if sig is None and P.get('merge_twice') and not made.raised:
            fold2_exc, n_fail2 = None, 0
            with warnings.catch_warnings(record=True):
                warnings.simplefilter('always')
                for j in order:
                    m = read(handles[1 + j])
                    try:
                        ro_f = ro_f + m
                    except exc.MosMergeError as e:
                        n_fail2 += 1
                        if strict:
                            fold2_exc = e
                            break
            out2 = call(lambda: mc.merge(strict=strict), exc)
            ns2 = [w for w in out2.warns if w.category.__name__ == 'MosMergeNonStrictWarning']
            if strict and fold_exc is None and fold2_exc is not None and not (out2.raised and type(out2.exc) is type(fold2_exc)):
                sig = 'second-merge-strict-error-not-propagated'
            elif (not strict or fold2_exc is None) and out2.raised and fold_exc is None:
                sig = 'second-merge-raised-' + type(out2.exc).__name__
            elif fold_exc is None and B.snap(mc.ro.xml) != B.snap(ro_f.xml):
                sig = 'second-merge-result-differs'
            elif not strict and len(ns2) != n_fail2:
                sig = 'second-merge-nonstrict-warnings-%d-for-%d-failures' % (len(ns2), n_fail2)
        if sig is None and P.get('sort_objects'):
            objs = [read(h) for h in supplied]
            srt = sorted(objs)
            if [o.message_id for o in srt] != sorted(int(m) for m in [rc_mid] + mids):
                sig = 'sorted-MosFile-objects-not-numeric'
    if P.get('judge') == 'runs-to-end' and sig and not sig.startswith(('merge-raised-', 'construction-raised-', 'second-merge-raised-')):
        sig = None          # the C12 reading of these cells: a non-strict merge runs to the end (the rest is C09's)
    if B.Ctx.replay:
        B.note(sig=sig)
    return sig is None


# ---------------------------------------------------------------------------------------
# C11 - acceptance
# ---------------------------------------------------------------------------------------

def accept_cell(P, A):
    """A collection is accepted exactly when it describes one running order."""
    n_rc, n_rd, n_other = P['n_rc'], P['n_rd'], P['n_other']
    allow = P['allow']
    src = P.get('source', 'string')
    others = ['roStoryMove', 'roMetadataReplace'] if not P.get('with_replace') else ['roReplace', 'roStoryMove']
    kinds = ['roCreate'] * n_rc + others[:n_other] + ['roDelete'] * n_rd
    order = P.get('order') or list(range(len(kinds)))
    kinds = [kinds[i] for i in order]
    n = len(kinds)
    rids = [A['r%d' % i] for i in range(n)]
    sig = None
    with World(opt=P.get('opt', False)) as W:
        mt, mc_mod, exc = W.mt, W.mc, W.exc
        handles = []
        mid_of = [10 + i for i in range(n)]
        if P.get('same_mid') and 'roCreate' in kinds and n > 1:
            # another message repeats the roCreate's message ID (IDs are not guaranteed unique)
            j = [i for i in range(n) if kinds[i] != 'roCreate'][0]
            mid_of[j] = mid_of[kinds.index('roCreate')]
        if P.get('blank_roid') is not None and P['blank_roid'] < n:
            rids[P['blank_roid']] = None        # <roID/>: no ID is not the same ID
        for i, kind in enumerate(kinds):
            mid = str(mid_of[i])
            if kind == 'roCreate':
                # P['completed_rc']: which of the roCreate documents (by occurrence) are saved, completed merge
                # output - still a roCreate as far as the collection is concerned
                occ = kinds[:i].count('roCreate')
                b = ro_builder(['a', 'b'], mid, ro_id=rids[i], completed=occ in (P.get('completed_rc') or ()))
            else:
                b = msg_builder(kind, 'a', mid, ro_id=rids[i])
            handles.append(W.doc(b, kind='string' if src == 'readers' else src))
        if P.get('repeat') is not None and P['repeat'] < len(handles):
            # the very same string / path / key listed twice: two readers, counted twice
            handles.append(handles[P['repeat']])
            kinds = kinds + [kinds[P['repeat']]]
            rids = rids + [rids[P['repeat']]]
            mid_of = mid_of + [mid_of[P['repeat']]]
            n = n + 1
            if kinds[-1] == 'roCreate':
                n_rc += 1
            elif kinds[-1] == 'roDelete':
                n_rd += 1
        if src == 's3':
            W.pages = [{'Contents': [{'Key': h} for h in handles]}]

        readers_list = None

        def build():
            if src == 'string':
                return mc_mod.MosCollection.from_strings(handles, allow_incomplete=allow)
            if src == 'file':
                return mc_mod.MosCollection.from_files(handles, allow_incomplete=allow)
            if src == 'readers':
                # the documented constructor, given a list of readers the caller keeps (and uses again)
                return mc_mod.MosCollection(readers_list, allow_incomplete=allow)
            return mc_mod.MosCollection.from_s3(bucket_name='b', prefix='prefix/', allow_incomplete=allow)
        if src == 'readers':
            readers_list = [mc_mod.MosReader.from_string(h) for h in handles]
        out = call(build, exc)
        B.hit()
        if src == 'readers':
            again = call(build, exc)
            if again.raised != out.raised or (out.raised and type(again.exc) is not type(out.exc)):
                sig = 'second-collection-from-the-same-readers-differs'
        one_id = True
        for r in rids[1:]:
            if (r is None) != (rids[0] is None) or (r is not None and r != rids[0]):
                one_id = False
        want = n >= 1 and one_id and n_rc == 1 and n_rd <= 1 and (allow or n_rd == 1)
        if sig is not None:
            pass
        elif want:
            if out.raised:
                sig = 'valid-collection-rejected-' + type(out.exc).__name__
            else:
                mc = out.result
                rc_mid = mid_of[kinds.index('roCreate')]
                if type(mc.ro).__name__ != 'RunningOrder' or mc.ro.message_id != rc_mid:
                    sig = 'ro-is-not-the-roCreate'
                elif len(mc.mos_readers) != n - 1 or any(mr.mos_type.__name__ == 'RunningOrder' for mr in mc.mos_readers):
                    sig = 'readers-still-contain-roCreate'
                elif sorted(mr.message_id for mr in mc.mos_readers) != sorted(mid_of[i] for i in range(n) if kinds[i] != 'roCreate'):
                    sig = 'readers-wrong'
                elif mc.ro_id != rids[0]:
                    sig = 'ro-id-wrong'
        else:
            if not out.raised:
                sig = 'invalid-collection-accepted'
            elif type(out.exc) is not exc.InvalidMosCollection:
                sig = 'rejected-with-' + type(out.exc).__name__
    if B.Ctx.replay:
        B.note(sig=sig, observed=B.conc(out.exc) if out.raised else 'accepted',
               expected='accepted' if want else 'InvalidMosCollection',
               kinds=kinds, ro_ids=rids, allow_incomplete=allow, optimize=P.get('opt', False))
    return sig is None


# ---------------------------------------------------------------------------------------
# C18 - S3 listing, readers, interchangeable sources
# ---------------------------------------------------------------------------------------

def s3_listing_cell(P, A):
    """get_mos_files returns every key with the suffix, across all pages, in page order."""
    shape = P['pages']               # e.g. ['c2', 'none', 'c1', 'empty']
    keys = [A[k] for k in sorted(A) if k.startswith('k')]
    suffix = A['suf'] if 'suf' in A else P.get('suffix', '.mos.xml')
    prefix = {'none': None, 'empty': '', 'sym': A.get('pfx')}[P.get('prefix', 'sym')]
    with World() as W:
        ki = 0
        all_keys = []
        for pg in shape:
            if pg == 'none':
                W.pages.append({'IsTruncated': True})
            elif pg == 'empty':
                W.pages.append({'Contents': []})
            else:
                n = int(pg[1:])
                page_keys = keys[ki:ki + n]
                ki += n
                all_keys += page_keys
                W.pages.append({'Contents': [{'Key': k, 'Size': 1} for k in page_keys], 'Name': 'b'})
        if P.get('default_suffix'):
            out = call(lambda: W.s3.get_mos_files('bucket', prefix), W.exc)
        else:
            out = call(lambda: W.s3.get_mos_files('bucket', prefix, suffix=suffix), W.exc)
        B.hit()
        sig = None
        if out.raised:
            sig = 'raised-' + type(out.exc).__name__
        else:
            want = [k for k in all_keys if len(k) >= len(suffix) and k[len(k) - len(suffix):] == suffix]
            if out.result != want:
                sig = 'listing-differs'
            elif W.paginate_args.get('Bucket') != 'bucket':
                sig = 'wrong-bucket'
            elif W.paginate_args.get('Prefix') != (prefix if prefix is not None else ''):
                sig = 'wrong-prefix'
        if B.Ctx.replay:
            B.note(sig=sig, observed=B.conc(out.exc) if out.raised else out.result,
                   expected=[k for k in all_keys if k.endswith(suffix)], pages=shape)
    return sig is None


def s3_reread_cell(P, A):
    """An S3 object read again after its content changed yields the new content (no stale copies), for
    MosFile.from_s3, MosReader.from_s3 (mos_object) and a second MosCollection.from_s3."""
    sid, sid2 = A['s0'], A['s1']
    sig = None
    with World() as W:
        mt, mc_mod, exc = W.mt, W.mc, W.exc
        key = W.doc(msg_builder('roStoryDelete', sid, '12'), kind='s3', name='prefix/a.mos.xml')
        rc_key = W.doc(ro_builder([sid, sid2], '5'), kind='s3', name='prefix/rc.mos.xml')
        W.pages = [{'Contents': [{'Key': rc_key}, {'Key': key}]}]
        first = call(lambda: mt.MosFile.from_s3('bucket', key), exc)
        mr = call(lambda: mc_mod.MosReader.from_s3('bucket', key), exc)
        mc1 = call(lambda: mc_mod.MosCollection.from_s3(bucket_name='bucket', prefix='prefix/', allow_incomplete=True), exc)
        # the same key now holds a different message
        W.doc(msg_builder('roStoryMove', sid2, '13'), kind='s3', name='prefix/a.mos.xml')
        second = call(lambda: mt.MosFile.from_s3('bucket', key), exc)
        B.hit()
        if first.raised or second.raised or mr.raised or mc1.raised:
            sig = 'raised'
        elif type(first.result).__name__ != 'StoryDelete' or type(second.result).__name__ != 'StoryMove':
            sig = 'stale-class-after-content-change'
        elif second.result.message_id != 13:
            sig = 'stale-content-after-content-change'
        else:
            o = call(lambda: mr.result.mos_object, exc)
            # (the reader keeps the class it determined when it was created; only the content is re-read)
            if o.raised or o.result.message_id != 13:
                sig = 'reader-restores-stale-content'
            else:
                mc2 = call(lambda: mc_mod.MosCollection.from_s3(bucket_name='bucket', prefix='prefix/', allow_incomplete=True), exc)
                if mc2.raised or [r.mos_type.__name__ for r in mc2.result.mos_readers] != ['StoryMove']:
                    sig = 'second-collection-sees-stale-content'
        if B.Ctx.replay:
            B.note(sig=sig, observed=sig, expected='every read reflects the current content of the object')
    return sig is None


def reader_cell(P, A):
    """A MosReader reports the message ID, running-order ID and class of the object it restores and
    restores a fresh, equal object every time."""
    kind = P['kind']
    src = P['source']
    mid, rid, sid = A['m0'], A['r0'], A['s0']
    sig = None
    with World() as W:
        mt, mc_mod, exc = W.mt, W.mc, W.exc
        if kind == 'roCreate':
            b = ro_builder([sid, 'zz'], mid, ro_id=rid)
        else:
            b = msg_builder(kind, sid, mid, new_id='nn', ro_id=rid)
        h = W.doc(b, kind=src, name=P.get('key_name') if src == 's3' else None)
        make = {'string': lambda: mc_mod.MosReader.from_string(h), 'file': lambda: mc_mod.MosReader.from_file(h),
                's3': lambda: mc_mod.MosReader.from_s3('bucket', h)}[src]
        out = call(make, exc)
        B.hit()
        if out.raised:
            sig = 'raised-' + type(out.exc).__name__
        else:
            mr = out.result
            o1, o2 = mr.mos_object, mr.mos_object
            direct = {'string': lambda: mt.MosFile.from_string(h), 'file': lambda: mt.MosFile.from_file(h),
                      's3': lambda: mt.MosFile.from_s3('bucket', h)}[src]()
            if mr.message_id != int(mid) or o1.message_id != mr.message_id:
                sig = 'message-id-differs'
            elif mr.ro_id != rid or o1.ro_id != mr.ro_id:
                sig = 'ro-id-differs'
            elif mr.mos_type is not type(o1) or type(o1) is not type(direct):
                sig = 'class-differs'
            elif o1 is o2 or o1.xml is o2.xml:
                sig = 'restored-object-shared'
            elif B.snap(o1.xml) != B.snap(o2.xml) or B.snap(o1.xml) != B.snap(direct.xml):
                sig = 'restored-object-differs'
            elif any(x is y for x in o1.xml.iter() for y in o2.xml.iter()):
                sig = 'restored-objects-share-elements'
        if B.Ctx.replay:
            B.note(sig=sig, observed=B.conc(out.exc) if out.raised else
                   {'message_id': out.result.message_id, 'ro_id': out.result.ro_id, 'type': out.result.mos_type.__name__},
                   expected={'message_id': mid, 'ro_id': rid})
    return sig is None


SOURCE_DOCS = [
    ('utf8-decl', 'utf-8', '<?xml version="1.0" encoding="UTF-8"?>\n<mos><mosID>m</mosID><messageID>12</messageID>'
                           '<roStoryDelete><roID>Ré</roID><storyID>über &amp; co</storyID></roStoryDelete></mos>'),
    ('no-decl', 'utf-8', '<mos><messageID>3</messageID><roCreate><roID>R</roID><roSlug>café &lt;1&gt;</roSlug>'
                         '<story><storyID>S1</storyID><p>中文</p></story></roCreate></mos>'),
    ('latin1-decl', 'iso-8859-1', '<?xml version="1.0" encoding="ISO-8859-1"?>\n<mos><messageID>4</messageID>'
                                  '<roDelete><roID>Résumé</roID></roDelete></mos>'),
    ('utf16-bom', 'utf-16', '<?xml version="1.0" encoding="UTF-16"?>\n<mos><messageID>5</messageID>'
                            '<roReadyToAir><roID>Ré</roID><roAir>READY</roAir></roReadyToAir></mos>'),
    ('utf8-bom', 'utf-8-sig', '<mos><messageID>6</messageID><roElementAction operation="SWAP"><roID>R</roID>'
                              '<element_source><storyID>é</storyID><storyID>b</storyID></element_source>'
                              '</roElementAction></mos>'),
    ('doctype', 'utf-8', '<!DOCTYPE mos [<!ENTITY who "newsroom">]>\n<mos><messageID>8</messageID><roStoryDelete><roID>R</roID>'
                         '<storyID>a</storyID></roStoryDelete></mos>'),
    ('doctype-system', 'utf-8', '<?xml version="1.0"?>\n<!DOCTYPE mos SYSTEM "mos.dtd">\n<mos><messageID>9</messageID>'
                                '<roDelete><roID>R</roID></roDelete></mos>'),
    # text a normalisation would change (decomposed accents, compatibility characters, non-BMP, no-break space)
    ('not-nfc', 'utf-8', '<mos><messageID>10</messageID><roStoryAppend><roID>R</roID><story><storyID>e\u0301 \u212b \u2126</storyID>'
                         '<storySlug>\ufb01n \U0001f600\u00a0x</storySlug><p>a\u030a</p></story></roStoryAppend></mos>'),
    # comments, processing instructions and CDATA (between elements, inside character data, around the root): whatever
    # the parser does with them, it does the same for every source
    ('comments-pis-cdata', 'utf-8', '<?xml version="1.0"?>\n<!-- sent by ncs -->\n<mos><messageID>13</messageID><roStoryAppend><roID>R</roID>'
                                    '<!-- one story --><story><storyID>S<!--x-->1</storyID><?ncs cue?><storySlug><![CDATA[a <b> & c]]></storySlug>'
                                    '<mosExternalMetadata><mosSchema>s</mosSchema><mosPayload><!-- vendor note --><k>v</k><?gfx go?></mosPayload>'
                                    '</mosExternalMetadata><p>one<!-- aside --> two</p></story></roStoryAppend></mos>\n<!-- end -->'),
    # XML namespaces in vendor payloads (prefixed and default)
    ('namespaces', 'utf-8', '<mos xmlns:dc="http://purl.org/dc/elements/1.1/"><messageID>14</messageID><roStoryAppend><roID>R</roID><story>'
                            '<storyID>S1</storyID><mosExternalMetadata><mosSchema>s</mosSchema><mosPayload><dc:title dc:lang="en">t</dc:title>'
                            '<title xmlns="urn:x-vendor">u</title><title>v</title></mosPayload></mosExternalMetadata></story></roStoryAppend></mos>'),
    # well-formed MOS messages the library does not support: the same refusal from every source
    ('heartbeat', 'utf-8', '<mos><mosID>m</mosID><ncsID>n</ncsID><messageID>11</messageID><heartbeat><time>2020-01-01T00:00:00</time>'
                           '</heartbeat></mos>'),
    ('roReq', 'ascii', '<mos><messageID>13</messageID><roReq><roID>R</roID></roReq></mos>'),
    # character references and CDATA sections (with characters that would need escaping outside them)
    ('charrefs-cdata', 'utf-8', '<mos><messageID>14</messageID><roStoryAppend><roID>R</roID><story><storyID>caf&#233; &#x26; co &#60;1&#62;</storyID>'
                                '<storySlug><![CDATA[AT&T <b> &amp; ]]]]><![CDATA[>]]></storySlug><p>&#160;x&#x1F600;</p></story></roStoryAppend></mos>'),
    ('ascii-pretty', 'ascii', '<mos>\n  <mosID>m</mosID>\n  <messageID>7</messageID>\n  <roStoryMove>\n    <roID>R</roID>\n'
                              '    <storyID>a</storyID>\n    <storyID/>\n  </roStoryMove>\n</mos>\n'),
]


def sources_cell(P, A):
    """The same content read from a file, from bytes and (where the text is self-describing) from a str
    yields the same class and the same serialisation.  Real files, real parser: the document is picked
    from a list by a solver-chosen index, so this cell is enumeration by forking, not symbolic content."""
    i = A['i']
    name, enc, text = SOURCE_DOCS[i]
    data = text.encode(enc)
    import mosromgr.mostypes as mt
    tmp = os.path.join(tempfile.gettempdir(), 'vsrc_%d' % os.getpid())   # no randomness under tracing
    os.makedirs(tmp, exist_ok=True)
    sig = None
    try:
        path = os.path.join(tmp, name + '.mos.xml')
        with open(path, 'wb') as f:
            f.write(data)
        res = {}
        res['file'] = B.call(lambda: mt.MosFile.from_file(path))
        res['path'] = B.call(lambda: mt.MosFile.from_file(__import__('pathlib').Path(path)))
        res['bytes'] = B.call(lambda: mt.MosFile.from_string(data))
        if enc in ('utf-8', 'ascii'):
            # a str cannot carry a conflicting encoding declaration; only self-consistent texts
            body = text.split('?>\n', 1)[1] if text.startswith('<?xml') else text
            res['str'] = B.call(lambda: mt.MosFile.from_string(body))
        if text.startswith('<?xml'):
            # a str that still carries its declaration (whatever encoding it names: a str is already decoded)
            res['str-with-declaration'] = B.call(lambda: mt.MosFile.from_string(text))
        with World(parser_stub=False) as W:
            W.objects['key'] = data
            res['s3'] = B.call(lambda: mt.MosFile.from_s3('bucket', 'key'))
            if name == 'utf8-bom':
                # the roElementAction document: the ElementAction entry points classify like MosFile's
                res['ea-file'] = B.call(lambda: mt.ElementAction.from_file(path))
                res['ea-bytes'] = B.call(lambda: mt.ElementAction.from_string(data))
                res['ea-s3'] = B.call(lambda: mt.ElementAction.from_s3('bucket', 'key'))
                res['concrete-class-file'] = B.call(lambda: mt.EAStorySwap.from_file(path))
        B.hit()
        # the collection readers over the same content: same message ID / class, or the same refusal
        import mosromgr.moscollection as mcm
        rd = {'reader-file': B.call(lambda: mcm.MosReader.from_file(path)),
              'reader-bytes': B.call(lambda: mcm.MosReader.from_string(data))}
        with World(parser_stub=False) as W2:
            W2.objects['key'] = data
            rd['reader-s3'] = B.call(lambda: mcm.MosReader.from_s3('bucket', 'key'))
        rd['reader-str'] = B.call(lambda: mcm.MosReader.from_string(text))
        if not rd['reader-str'].raised and rd['reader-str'].result is not None:
            # what a reader restores is the document it was given
            back = B.call(lambda: str(rd['reader-str'].result.mos_object))
            direct = B.call(lambda: str(mt.MosFile.from_string(text)))
            if back.raised or direct.raised or back.result != direct.result:
                sig = 'reader-str-restores-a-different-document'
        ref = res['bytes']
        unsupported = name in ('heartbeat', 'roReq')
        for k, o in rd.items():
            if sig is not None:
                break
            if ref.raised:
                # a document MosFile refuses is refused by every reader constructor too, and in the same way by all three
                if not o.raised or type(o.exc) is not type(rd['reader-bytes'].exc):
                    sig = '%s-does-not-refuse-like-the-other-readers' % k
            elif o.raised:
                sig = '%s-raised-%s' % (k, type(o.exc).__name__)
            elif o.result is None or o.result.message_id != ref.result.message_id or o.result.mos_type is not type(ref.result):
                sig = '%s-differs-from-MosFile' % k
        if sig is None and ref.raised != unsupported:
            sig = 'bytes-raised-%s' % type(ref.exc).__name__ if ref.raised else 'unsupported-message-accepted'
        for k, o in res.items():
            if sig is not None:
                break
            if ref.raised:
                if not o.raised or type(o.exc) is not type(ref.exc):
                    sig = '%s-does-not-refuse-like-bytes' % k
                continue
            if o.raised:
                sig = '%s-raised-%s' % (k, type(o.exc).__name__)
                break
            if type(o.result) is not type(ref.result):
                sig = '%s-class-differs' % k
                break
            if str(o.result) != str(ref.result):
                sig = '%s-serialisation-differs' % k
                break
        if B.Ctx.replay:
            B.note(sig=sig, observed={k: (B.conc(o.exc) if o.raised else type(o.result).__name__) for k, o in res.items()},
                   expected='same class and serialisation from every source', document=name)
    finally:
        shutil.rmtree(tmp, ignore_errors=True)
    return sig is None


# ---------------------------------------------------------------------------------------
# C19 - command line
# ---------------------------------------------------------------------------------------

FILE_KINDS = ['roCreate', 'roCreate-completed', 'roStoryMove', 'roDelete', 'roStorySend', 'roElementAction',
              'roReplace', 'roMetadataReplace', 'unknown-xml', 'malformed', 'missing', 'directory',
              'latin1-roStoryDelete', 'binary-junk', 'roStoryMove-to-bottom', 'roElementAction-no-operation',
              'roElementAction-odd-shape', 'roStoryAppend-no-message-id', 'roCreate-text-message-id', 'roCreate-blank-timing']
LATIN1_DOC = ('<?xml version="1.0" encoding="ISO-8859-1"?>\n<mos><messageID>%s</messageID><roStoryDelete>'
              '<roID>RO</roID><storyID>caf\u00e9</storyID></roStoryDelete></mos>')
VALID_CLASS = {'roStoryAppend-no-message-id': 'StoryAppend', 'roCreate-text-message-id': 'RunningOrder',
               'roCreate-blank-timing': 'RunningOrder',
               'latin1-roStoryDelete': 'StoryDelete', 'roStoryMove-to-bottom': 'StoryMove','roCreate': 'RunningOrder', 'roCreate-completed': 'RunningOrder (completed)', 'roStoryMove': 'StoryMove',
               'roDelete': 'RunningOrderEnd', 'roStorySend': 'StorySend', 'roElementAction': 'EAStorySwap',
               'roReplace': 'RunningOrderReplace', 'roMetadataReplace': 'MetaDataReplace'}


def file_of_kind(W, kind, i, mid=None, name=None):
    mid = mid or str(10 + i)
    name = name or 'f%d_%s.mos.xml' % (i, kind)
    if kind in ('unknown-xml', 'malformed', 'missing', 'directory'):
        return W.bad_file(kind, name=name)
    if kind in ('latin1-roStoryDelete', 'binary-junk'):
        # bytes that are not UTF-8: a legal document in a declared encoding, and junk that is merely invalid
        if W.replay:
            path = os.path.join(W._tmpdir(), name)
            with open(path, 'wb') as f:
                f.write((LATIN1_DOC % mid).encode('iso-8859-1') if kind.startswith('latin1') else b'\xff\xfe\x00junk\x80\x81')
            return path
        if kind == 'binary-junk':
            return W.bad_file('malformed', name=name)
        return W.doc(msg_builder('roStoryDelete', 'caf\u00e9', mid), kind='file', name=name)
    if kind in ('roElementAction-no-operation', 'roElementAction-odd-shape'):
        # well-formed XML that is not a recognisable MOS message: an invalid file like any other
        def b():
            if kind.endswith('no-operation'):
                return B.raw(lambda: M.ea(None, M.ea_target('a'), M.tags('storyID', ['b']), msg_id=mid))
            return B.raw(lambda: M.ea('SWAP', M.ea_target('a', 'i'), M.tags('itemID', ['b', 'c']), msg_id=mid))
        return W.doc(b, kind='file', name=name)
    if kind == 'roStoryMove-to-bottom':
        return W.doc(lambda: B.raw(lambda: M.story_move('a', None, msg_id=mid)), kind='file', name=name)
    if kind == 'roCreate':
        b = ro_builder(['a', 'b', 'c'], mid)
    elif kind == 'roStoryAppend-no-message-id':
        # classification is decided by the message element alone: the envelope may lack its messageID ...
        def b():
            root = msg_builder('roStoryAppend', 'a', mid, new_id='n')()
            root.remove(root.find('messageID'))
            return root
    elif kind == 'roCreate-blank-timing':
        # timing tags that are present but blank, a blank roEdStart, a story without any metadata: still a roCreate
        def b():
            blank = E('mosExternalMetadata', T('mosSchema', 's'), E('mosPayload', T('StoryDuration', None), T('TextTime', None),
                                                                  T('StoryStarted', None), T('StoryEnded', None)))
            return B.ro_tree([B.story('a', slug=None), B.story('b', slug='s', timing=B.timing_block(dur='5')),
                              B.story('c', slug='s', timing=blank)], lead=3, msg_id=mid, edstart=None)
    elif kind == 'roCreate-text-message-id':
        b = ro_builder(['a', 'b'], 'n/a')      # ... or carry one that is not a number
    elif kind == 'roCreate-completed':
        def b():
            root = ro_builder(['a', 'b'], mid)()
            root.append(E('mosromgrmeta', E('roDelete', T('roID', 'RO'))))
            return root
    elif kind == 'roElementAction':
        b = msg_builder('EAStorySwap', 'a', mid)
    elif kind == 'roReplace':
        b = lambda: B.raw(lambda: M.ro_replace([T('roSlug', 'new'), T('roEdStart', None), B.story('n', slug='s')], msg_id=mid))
    else:
        b = msg_builder(kind, 'a', mid, new_id='n%d' % i)
    return W.doc(b, kind='file', name=name)


class Capture:
    """stdout/stderr of one CLI call.  print() of the cli and mostypes modules is recorded (stub S5/S7)."""

    def __init__(self, W):
        self.W = W
        self.prints = []      # tuples of printed objects (cli module)
        self.inspect_prints = []
        self.err = io.StringIO()
        self.written = {}

    def __enter__(self):
        cli, mt = self.W.cli, self.W.mt
        cap = self
        self._old = (cli.__dict__.get('print'), mt.__dict__.get('print'), cli.__dict__.get('open'), sys.stderr)
        cli.print = lambda *a, **k: cap.prints.append(a)
        mt.print = lambda *a, **k: cap.inspect_prints.append(a)
        if not self.W.replay:
            class F:
                def __init__(s, name):
                    s.name = name
                    cap.written[name] = ''

                def write(s, data):
                    cap.written[s.name] += data

                def __enter__(s):
                    return s

                def __exit__(s, *a):
                    return False

            def fake_open(name, mode='r', *a, **k):
                if 'w' not in mode:
                    raise OSError('read not modelled')
                if str(name).endswith('/nodir/out.xml'):
                    raise FileNotFoundError(2, 'No such file or directory', name)
                return F(str(name))
            cli.open = fake_open
        sys.stderr = self.err
        return self

    def __exit__(self, *a):
        cli, mt = self.W.cli, self.W.mt
        sys.stderr = self._old[3]
        for mod, name, old in ((cli, 'print', self._old[0]), (mt, 'print', self._old[1]), (cli, 'open', self._old[2])):
            if old is None:
                mod.__dict__.pop(name, None)
            else:
                setattr(mod, name, old)
        return False


import io  # noqa: E402


def cli_list_cell(P, A):
    """detect / inspect: every listed file, in order, gets its class (with '(completed)') or is marked
    invalid, and one bad or unreadable file never prevents the others from being processed."""
    cmd = P['cmd']
    n = P['n']
    kinds = [FILE_KINDS[A['k%d' % i]] for i in range(n)]
    sig = None
    with World() as W:
        paths = [file_of_kind(W, k, i) for i, k in enumerate(kinds)]
        with Capture(W) as cap:
            out = call(lambda: W.cli.main([cmd, '-f'] + paths), W.exc)
        B.hit()
        valid_paths = [p for p, k in zip(paths, kinds) if k in VALID_CLASS]
        printed = [a[0] for a in cap.prints if len(a) == 1 and isinstance(a[0], str)]
        # the class lines of the valid files, in the order printed (a file may be marked invalid on
        # either stream; only the valid files' lines are compared exactly)
        records = [r for r in printed if any(r.startswith(p + ': ') for p in valid_paths)]
        want = ['%s: %s' % (p, VALID_CLASS[k]) for p, k in zip(paths, kinds) if k in VALID_CLASS]
        err = cap.err.getvalue()
        if out.raised:
            sig = 'raised-' + type(out.exc).__name__
        elif records != want:
            sig = 'files-not-all-reported-in-order'
        else:
            for p, k in zip(paths, kinds):
                if k not in VALID_CLASS and p not in err and not any(p in r for r in printed):
                    sig = 'invalid-file-not-marked'
            if sig is None and cmd == 'inspect' and out.result == 2:
                sig = 'inspect-aborted'
            if sig is None and all(k in VALID_CLASS for k in kinds) and (out.result is not None or err):
                sig = 'error-reported-for-valid-files'
        if B.Ctx.replay:
            B.note(sig=sig, observed={'stdout': records, 'stderr': err, 'returned': out.result, 'raised': B.conc(out.exc)},
                   expected={'stdout': want}, kinds=kinds)
    return sig is None


SCENARIOS = {
    'complete': ['roCreate', 'roStoryMove', 'roStorySend', 'roDelete'],
    'incomplete': ['roCreate', 'roStoryMove', 'roStorySend'],
    'after-delete': ['roCreate', 'roDelete', 'roStoryMove@50'],
    'failing': ['roCreate', 'roStoryMove!', 'roStorySend', 'roDelete'],
    'failing-incomplete': ['roCreate', 'roStorySend', 'roStoryMove!'],
    'no-rocreate': ['roStoryMove', 'roDelete'],
    'two-rocreate': ['roCreate', 'roCreate', 'roDelete'],
    'malformed-file': ['roCreate', 'malformed', 'roDelete'],
    'missing-file': ['roCreate', 'missing', 'roDelete'],
    'directory-listed': ['roCreate', 'directory', 'roStoryMove', 'roDelete'],
    'unknown-xml': ['roCreate', 'unknown-xml', 'roDelete'],
    'reversed': ['roDelete@30', 'roStorySend@20', 'roCreate@5'],
    'same-path-twice': ['roCreate', 'roStoryAppend', '=1', 'roDelete'],
    'roCreate-path-twice': ['roCreate', '=0', 'roDelete'],
    'latin1-file': ['roCreate', 'latin1-roStoryDelete', 'roDelete'],
    'non-ascii-content': ['roCreate', 'roStoryAppend-nonascii', 'roDelete'],
    'bad-message-id': ['roCreate', 'roStoryMove@abc', 'roDelete'],
    'blank-message-id': ['roCreate', 'roStoryMove@', 'roDelete'],
    # two messages that share a message ID are merged in the order listed, whatever their file names
    'same-id-listed-against-name-order': ['roCreate#m', 'roStoryAppend@20#zz', 'roStoryAppend@20#aa', 'roDelete@30#n'],
    'listed-against-name-order': ['roStorySend@20#b', 'roDelete@30#a', 'roCreate@5#c'],
    # messages the library applies with a warning only (a story that is not there is deleted; an item of an unknown
    # story): what the library does with them in strict / non-strict mode is what the command does
    'warning-only': ['roCreate', 'roStoryDelete!', 'roStorySend', 'roDelete'],
    'warning-only-incomplete': ['roCreate', 'roStoryDelete!', 'roStoryDelete!'],
    'warning-then-failing': ['roCreate', 'roStoryDelete!', 'roStoryMove!', 'roDelete'],
}


def _cli_merge_s3(P, A, W, scen, inc, nonstrict):
    """merge -b/-p[/-s]: the same collection as MosCollection.from_s3 with the same arguments."""
    keys = []
    for i, spec in enumerate(scen):
        kind, _, mid = spec.partition('@')
        mid = mid or str(10 + i)
        ref_id = 'a'
        if kind.endswith('!'):
            kind, ref_id = kind[:-1], 'zz-unknown'
        b = ro_builder(['a', 'b', 'c'], mid) if kind == 'roCreate' else msg_builder(kind, ref_id, mid, new_id='n%d' % i)
        keys.append(W.doc(b, kind='s3', name='prefix/%02d-%s%s' % (i, kind, '.xml' if i == P.get('draft') else '.mos.xml')))
    W.pages = [{'Contents': [{'Key': k} for k in keys[:2]]}, {'Contents': [{'Key': k} for k in keys[2:]]}]
    suffix = P.get('suffix')

    def lib():
        kw = {'suffix': suffix} if suffix else {}
        mc = W.mc.MosCollection.from_s3(bucket_name='bucket', prefix='prefix/', allow_incomplete=inc, **kw)
        mc.merge(strict=not nonstrict)
        return str(mc)
    ref = call(lib, W.exc)
    argv = ['merge', '-b', 'bucket', '-p', 'prefix/'] + (['-s', suffix] if suffix else []) + \
        (['--incomplete'] if inc else []) + (['-n'] if nonstrict else [])
    with Capture(W) as cap:
        out = call(lambda: W.cli.main(argv), W.exc)
    B.hit()
    err = cap.err.getvalue()
    sig = None
    if out.raised:
        sig = 'raised-' + type(out.exc).__name__
    elif ref.raised:
        if out.result != 2 or not err:
            sig = 'error-but-exit-status-%r' % (out.result,)
    else:
        objs = [a[0] for a in cap.prints if len(a) == 1]
        if out.result is not None:
            sig = 'success-but-exit-status-%r' % (out.result,)
        elif len(objs) != 1 or str(objs[0]) != ref.result:
            sig = 'stdout-differs-from-library-result'
    if B.Ctx.replay:
        B.note(sig=sig, observed={'returned': out.result, 'stderr': err, 'raised': B.conc(out.exc)},
               expected={'library': B.conc(ref.exc) if ref.raised else 'ok'}, argv=argv)
    return sig is None


def cli_twice_cell(P, A):
    """detect / inspect twice in one process on the same path whose content changed in between: the second
    run reports what the file holds now."""
    cmd = P['cmd']
    k1, k2 = FILE_KINDS[A['k0']], FILE_KINDS[A['k1']]
    sig = None
    with World() as W:
        name = 'work.mos.xml'
        def put(kind):
            # (re)create the file 'work.mos.xml' holding a document of the given kind
            if W.replay:
                tmp = file_of_kind(W, kind, 0)
                dst = os.path.join(W._tmpdir(), name)
                if os.path.isdir(dst):
                    os.rmdir(dst)
                elif os.path.exists(dst):
                    os.remove(dst)
                if kind == 'missing':
                    return dst
                os.rename(tmp, dst)
                return dst
            h = file_of_kind(W, kind, 0)
            dst = '/virtual/' + name
            W.builders.pop(dst, None)
            W.fail.pop(dst, None)
            if h in W.builders:
                W.builders[dst] = W.builders.pop(h)
            if h in W.fail:
                W.fail[dst] = W.fail.pop(h)
            return dst
        outs = []
        for kind in (k1, k2):
            path = put(kind)
            with Capture(W) as cap:
                out = call(lambda: W.cli.main([cmd, '-f', path]), W.exc)
            printed = [a[0] for a in cap.prints if len(a) == 1 and isinstance(a[0], str)]
            outs.append((kind, path, out, [r for r in printed if r.startswith(path + ': ')], cap.err.getvalue()))
        B.hit()
        for kind, path, out, records, err in outs:
            want = ['%s: %s' % (path, VALID_CLASS[kind])] if kind in VALID_CLASS else []
            if out.raised:
                sig = 'raised-' + type(out.exc).__name__
            elif records != want:
                sig = 'second-run-reports-stale-content' if kind == k2 and (kind, path, out, records, err) is outs[1] else 'wrong-report'
            elif kind not in VALID_CLASS and path not in err and not records:
                sig = sig or ('invalid-file-not-marked' if path not in err else None)
        if B.Ctx.replay:
            B.note(sig=sig, observed=[(k, r, e) for k, p_, o, r, e in outs], expected='each run reports the current content')
    return sig is None


def cli_merge_cell(P, A):
    """merge writes exactly the serialisation of the library's merged collection, honours --incomplete
    and --non-strict exactly as the library flags, exits 0 on success and 2 with a message on any error."""
    scen = SCENARIOS[P['scenario']]
    inc, nonstrict = bool(A['inc']), bool(A['ns'])
    outmode = P.get('out', 'stdout')     # stdout | file | bad-dir
    sig = None
    with World() as W:
        paths = []
        if P.get('s3'):
            return _cli_merge_s3(P, A, W, scen, inc, nonstrict)
        for i, spec in enumerate(scen):
            if spec.startswith('='):
                paths.append(paths[int(spec[1:])])      # the very same path listed again
                continue
            spec, _, fname = spec.partition('#')          # '#name': file name (listed order need not be name order)
            kind, at, mid = spec.partition('@')
            if fname:
                paths.append(file_of_kind(W, kind, i, mid=mid or None, name=fname + '.mos.xml'))
                continue
            if at and not mid.isdigit():
                # a classifiable message whose messageID is not a number: the library fails with a built-in
                # exception; the command line must still report an error and exit 2
                paths.append(W.doc(msg_builder(kind, 'a', mid or None), kind='file'))
                continue
            if kind == 'roStoryAppend-nonascii':
                paths.append(W.doc(lambda: B.raw(lambda: M.story_append(
                    [B.story('n\u00e9', slug='caf\u00e9 \u20ac \u0416', body=[T('p', '\u00fcber')])], msg_id=str(10 + i))), kind='file'))
                continue
            if kind.endswith('!'):
                paths.append(W.doc(msg_builder(kind[:-1], 'zz-unknown', mid or str(10 + i)), kind='file'))
            else:
                paths.append(file_of_kind(W, kind, i, mid=mid or None))
        # the library, directly, with the same flags
        def lib():
            mc = W.mc.MosCollection.from_files(paths, allow_incomplete=inc)
            mc.merge(strict=not nonstrict)
            return str(mc)
        ref = call(lib, W.exc)
        argv = ['merge', '-f'] + paths
        if inc:
            argv.append('--incomplete')
        if nonstrict:
            argv.append('-n')
        outfile = None
        if outmode == 'over-input':
            # the merged running order replaces the first input file (update in place)
            outfile = paths[0]
            argv += ['-o', outfile]
        elif outmode != 'stdout':
            outfile = ('/virtual/out.xml' if outmode == 'file' else '/virtual/nodir/out.xml') if not W.replay else \
                os.path.join(W._tmpdir(), 'out.xml' if outmode == 'file' else 'nodir/out.xml')
            argv += ['-o', outfile]
        with Capture(W) as cap:
            out = call(lambda: W.cli.main(argv), W.exc)
        B.hit()
        err = cap.err.getvalue()
        if outfile and outmode in ('file', 'over-input') and W.replay and os.path.isfile(outfile) and not ref.raised:
            cap.written[outfile] = open(outfile).read()
        # a listed file that cannot be read as a MOS message is an error whatever else is listed
        unreadable = any(sp.partition('#')[0].partition('@')[0] in ('missing', 'directory', 'malformed', 'unknown-xml', 'binary-junk')
                         for sp in scen)
        if out.raised:
            sig = 'raised-' + type(out.exc).__name__
        elif unreadable and out.result != 2:
            sig = 'unreadable-input-but-exit-status-%r' % (out.result,)
        elif ref.raised or outmode == 'bad-dir':
            if out.result != 2:
                sig = 'error-but-exit-status-%r' % (out.result,)
            elif not err:
                sig = 'error-without-message'
            elif any(len(a) == 1 and not isinstance(a[0], str) for a in cap.prints) or \
                    (outmode == 'file' and cap.written.get(outfile)):
                sig = 'output-written-despite-error'
        else:
            if out.result is not None:
                sig = 'success-but-exit-status-%r' % (out.result,)
            elif outmode == 'stdout':
                objs = [a[0] for a in cap.prints if len(a) == 1]
                if len(objs) != 1 or str(objs[0]) != ref.result:
                    sig = 'stdout-differs-from-library-result'
            else:
                if cap.written.get(outfile) != ref.result:
                    sig = 'outfile-differs-from-library-result'
        if B.Ctx.replay:
            B.note(sig=sig, observed={'returned': out.result, 'stderr': err, 'raised': B.conc(out.exc)},
                   expected={'library': B.conc(ref.exc) if ref.raised else 'ok'}, argv=argv)
    return sig is None
