"""One generic merge cell serving C03 (frame), C05 (atomicity), C06 (reporting), C12 (exception
containment) and the envelope invariants of C14.

A cell fixes a message type and the *kind* of every reference slot (existing / unknown / blank /
absent / same-as-previous / duplicate-carried); IDs, contents and positions are solver variables.
"""
from mosromgr.exc import MosMergeError, MosRoMgrException

from . import build as B
from . import msgs as M
from .build import E, T
from .h_order import OPS, build_message, idx_of, keys, model, mk_story

BLANK_MEANS_END = {'roStoryMove', 'EAStoryMove', 'EAStoryInsert', 'roItemInsert', 'EAItemInsert',
                   'roItemMoveMultiple', 'EAItemMove'}
ABSENT_MEANS_END = {'roStoryMove', 'EAStoryMove', 'EAStoryInsert'}


def kind_of(op):
    return op.replace('EA', '').replace('ro', '').replace('Story', '').replace('Item', '')


# ---------------------------------------------------------------------------------------
# rich pre-state
# ---------------------------------------------------------------------------------------

def rich_state(P, A):
    """Running order with content everywhere; returns (ro, ids, addr_id, other_id).

    story level: N stories with symbolic IDs.  item level: story p0 holds N items with symbolic
    IDs, story p1 holds items with the same IDs reversed.  ``c0`` (symbolic) is the text of the
    paragraphs, ``c1`` (symbolic) sits in the running-order metadata and as an attribute value."""
    level = OPS[P['op']][0]
    N = P['N']
    ids = [A['s%d' % i] for i in range(N)]
    if P.get('dup_state'):
        # a container that holds the same ID twice (reachable: roStoryAppend / replacements / item inserts do not
        # de-duplicate).  Only used with oracles that do not need to know which of the two a reference means
        i_, j_ = P['dup_state']
        ids[j_] = ids[i_]
    c0 = A.get('c0', 'para')
    c1 = A.get('c1', 'meta')
    timed = P.get('timing', True)

    def tb(d, i=None):
        # P['timing_pat'][i]: which timing tags story i carries (default: a StoryDuration)
        pat = P.get('timing_pat')
        kind = pat[i] if pat and i is not None and i < len(pat) else 'SD'
        if not timed or kind == 'none':
            return None
        if kind == 'TT':
            return B.timing_block(text_time=d)
        if kind == 'MT':
            return B.timing_block(media_time=d)
        if kind == 'TT+MT':
            return B.timing_block(text_time=d, media_time='3')
        if kind == 'empty':
            return B.timing_block()
        if kind == 'blank':
            # <StoryDuration/>, <TextTime/>, <MediaTime/>: present but blank
            tb_ = B.timing_block(dur='0', text_time='0', media_time='0')
            for c_ in tb_.find('mosPayload'):
                c_.text = None
            return tb_
        return B.timing_block(dur=d)
    meta = E('mosExternalMetadata', T('mosScope', 'PLAYLIST'), T('mosSchema', 'sch.ro'),
             E('mosPayload', T('Owner', c1), E('nested', T('leaf', 'x'), k=c1)))
    untimed = P.get('untimed', ())
    dec_story = A.get('n0', A.get('x', 'decoy-story'))      # the carried / unknown ID, where there is one
    dec_item = A.get('n0', A.get('e0', 'decoy-item'))
    if level == 'story':
        stories = []
        if P.get('blank_first'):
            # a story whose storyID tag is blank (reachable: roStoryAppend of such a story)
            stories.append(B.story(None, slug='blank', timing=tb('5'), body=[T('p', c0)]))
        for i, sid in enumerate(ids):
            if P.get('blank_mid') == i:
                stories.append(B.story(None, slug='blank', timing=tb('5'), body=[T('p', c0)]))
            stories.append(B.story(sid, slug='ss', timing=None if i in untimed else tb('10', i),
                                   body=[T('p', c0), B.item('I1', slug='one', obj_id='o1', extra=B.decoys(dec_story, dec_item)),
                                         T('p', None)]))
        root = B.ro_tree(stories, lead=3, gap=P.get('gap', 0), trail=P.get('trail', 1), edstart=None)
        rc = root.find('roCreate')
        rc.insert(3, meta)
        _tails(P, root)
        return B.wrap(root, B.mt.RunningOrder), ids, None, None
    addr_id, other_id = A['p0'], A['p1']
    body = []
    if P.get('blank_first'):
        body.append(B.item(None, slug='blank'))
    for i, iid in enumerate(ids):
        if P.get('blank_mid') == i:
            body.append(B.item(None, slug='blank'))
        body.append(B.item(iid, slug='is', obj_id=c0 if i == 0 else 'o',
                           extra=B.decoys(dec_story, dec_item) if i == 0 else None))
        if i == 0:
            body.append(T('p', c0))
    if P.get('tail', True):
        body.append(T('p', '(tail)'))
    addressed = B.story(addr_id, slug='ss', timing=None if 0 in untimed else tb('10', 0), body=body)
    extra = [B.item(A['e0'], slug='only-here', obj_id=c0)] if 'e0' in A else []
    other = B.story(other_id, slug='so', timing=None if 1 in untimed else tb('20', 1),
                    body=[B.item(i, slug='other', obj_id=c0) for i in reversed(ids)] + extra + [T('p', c0)])
    order = [addressed, other] if P.get('w', 0) == 0 else [other, addressed]
    root = B.ro_tree(order, lead=3, trail=1)
    root.find('roCreate').insert(3, meta)
    _tails(P, root)
    return B.wrap(root, B.mt.RunningOrder), ids, addr_id, other_id


def _tails(P, root):
    """P['tails']: mixed content - every story, item and paragraph is followed by character data of its parent
    (an element's tail travels with it; nothing else may touch it)."""
    if P.get('tails'):
        for i, el in enumerate(root.iter()):
            if el.tag in ('story', 'item', 'p', 'roChannel', 'roTrigger'):
                el.tail = 'text-after-%d' % i


# ---------------------------------------------------------------------------------------
# resolution plan: what the message names, what resolves, what must happen
# ---------------------------------------------------------------------------------------

class Plan:
    pass


def plan(P, A, ids):
    op = P['op']
    level, has_t, has_src, has_new = OPS[op]
    pl = Plan()
    pl.story_kind = P.get('story_k', 'existing') if level == 'item' else None
    pl.story_ok = pl.story_kind in (None, 'existing')
    x = A.get('x')
    # target
    pl.t = None
    pl.t_ok = True
    pl.tgt = None
    if has_t:
        tk = P.get('tk', 'existing')
        if tk == 'existing':
            pl.t = A['t']
            pl.tgt = ids[pl.t]
        elif tk == 'source':
            pl.t = A['u0']
            pl.tgt = ids[pl.t]
        elif tk == 'blank':
            pl.tgt = None
            pl.t_ok = op in BLANK_MEANS_END
        elif tk == 'absent':
            pl.tgt = M.ABSENT
            pl.t_ok = op in ABSENT_MEANS_END
        elif tk == 'unknown':
            pl.tgt = x
            pl.t_ok = False
    # sources
    pl.srcs, pl.us, pl.unres_src = [], [], 0
    if has_src:
        for j, kind in enumerate(P.get('sk', ['existing'])):
            if kind == 'existing':
                u = A['u%d' % j]
                pl.srcs.append(ids[u])
                pl.us.append(u)
            elif kind == 'same':
                pl.srcs.append(pl.srcs[-1])
                pl.unres_src += 1       # a second mention cannot be found again (delete) / is contradictory
            elif kind == 'unknown':
                pl.srcs.append(x)
                pl.unres_src += 1
            elif kind == 'blank':
                pl.srcs.append(None)
                pl.unres_src += 1
    # carried
    pl.new, pl.eff_new, pl.dups = [], [], 0
    if has_new:
        for j, kind in enumerate(P.get('nk', ['fresh'])):
            if kind == 'fresh':
                pl.new.append(A['n%d' % j])
                pl.eff_new.append(A['n%d' % j])
            elif kind == 'dup':
                pl.new.append(ids[A['d']])
                pl.dups += 1
            elif kind == 'dup2':
                pl.new.append(ids[A['d2']])
                pl.dups += 1
            elif kind == 'other':
                # an item whose ID exists only in the OTHER story: new to the addressed one
                pl.new.append(A['e0'])
                pl.eff_new.append(A['e0'])
    return pl


def expected_warnings(P, pl):
    op = P['op']
    level = OPS[op][0]
    nf = 'StoryNotFoundWarning' if level == 'story' else 'ItemNotFoundWarning'
    if level == 'item' and not pl.story_ok:
        return ['StoryNotFoundWarning']
    out = []
    if not pl.t_ok:
        out.append(nf)
    out += [nf] * pl.unres_src
    if level == 'story' and kind_of(op) == 'Insert':
        out += ['DuplicateStoryWarning'] * pl.dups
    return out


def expected_keys(P, pl, before):
    """Key sequence of the container when the message is applied to what resolves."""
    op = P['op']
    level = OPS[op][0]
    k = kind_of(op)
    if (level == 'item' and not pl.story_ok) or not pl.t_ok:
        return list(before)
    if k == 'Swap':
        return model(op, before, None, pl.us, []) if len(pl.us) == 2 and pl.unres_src == 0 else list(before)
    if k == 'Send':
        return list(before)
    new = pl.eff_new if (level == 'story' and k == 'Insert') else pl.new
    if k == 'Replace' and not new:
        return list(before)
    return model(op, before, pl.t, pl.us, new)


def affected_displaced(P, pl):
    """Indices (into the container's keyed elements) the message may replace/remove, and those it
    may move.  Everything else must keep content and relative order."""
    op = P['op']
    level = OPS[op][0]
    k = kind_of(op)
    if (level == 'item' and not pl.story_ok):
        return set(), set()
    if k == 'Replace':
        return ({pl.t} if pl.t is not None else set()), set()
    if k == 'Delete':
        return set(pl.us), set()
    if k == 'Send':
        return set(pl.us), set()
    if k in ('Move', 'MoveMultiple', 'Swap'):
        return set(), set(pl.us)
    return set(), set()


# ---------------------------------------------------------------------------------------
# observation
# ---------------------------------------------------------------------------------------

def find_same(seq, el, want_snap):
    for j, a in enumerate(seq):
        if a is el:
            return j
    for j, a in enumerate(seq):
        if B.snap(a) == want_snap:
            return j
    return None


def frame_ok(before, snaps, after, affected_el, displaced_el):
    """before/after: child element lists of one parent; affected_el/displaced_el: elements."""
    pos = []
    for b, s in zip(before, snaps):
        if any(b is a for a in affected_el):
            continue
        j = find_same(after, b, s)
        if j is None:
            return 'unnamed-element-lost-or-altered'
        if B.snap(after[j]) != s:
            return 'unnamed-element-altered'
        if not any(b is d for d in displaced_el):
            pos.append(j)
    for i in range(len(pos) - 1):
        if not pos[i] < pos[i + 1]:
            return 'unnamed-element-displaced'
    return None


def keyed(level, cont):
    return cont.findall('story') if level == 'story' else cont.findall('item')


def envelope_ok(ro, mid_obj, roid_obj):
    root = ro.xml
    if len(root.findall('roCreate')) != 1:
        return 'not-exactly-one-roCreate'
    if len(root.findall('mosromgrmeta')) > 1:
        return 'several-completion-records'
    m = root.find('messageID')
    if m is None or not (m.text is mid_obj or m.text == mid_obj):
        return 'messageID-changed'
    r = root.find('roCreate').find('roID')
    if r is None or not (r.text is roid_obj or r.text == roid_obj):
        return 'roID-changed'
    for el in root.iter():
        if not isinstance(el.tag, str):
            return 'non-str-tag'
        if el.text is not None and not isinstance(el.text, str):
            return 'non-str-text'
        if el.tail is not None and not isinstance(el.tail, str):
            return 'non-str-tail'
    return None


def full_cell(P, A):
    op = P['op']
    prop = P['prop']
    level, has_t, has_src, has_new = OPS[op]
    ro, ids, addr_id, other_id = rich_state(P, A)
    if P.get('prehist'):
        B.prehist_replace(ro)
    if P.get('prefail'):
        from . import history
        history.failed_attempts(ro, addr=addr_id, level=level)
    if P.get('presend'):
        from . import history
        history.resend_stories(ro)
    pl = plan(P, A, ids)
    rc = B.rc_of(ro)
    if level == 'story':
        cont = rc
    else:
        cont = next(s for s in rc.findall('story') if B.same_obj(s.find('storyID').text, addr_id))
    story_ref = None
    if level == 'item':
        story_ref = {'existing': addr_id, 'unknown': A.get('x'), 'blank': None, 'absent': M.ABSENT}[pl.story_kind]
    mid_obj = ro.xml.find('messageID').text
    roid_obj = rc.find('roID').text
    root_snap = B.snap(ro.xml)
    rc_children = list(rc)
    rc_snaps = [B.snap(c) for c in rc_children]
    cont_children = list(cont)
    cont_snaps = [B.snap(c) for c in cont_children]
    before_keyed = keyed(level, cont)
    before = keys(level, cont)
    B.Ctx.mid = P.get('mid')          # e.g. 'n/a' or '' : a messageID that is not a number (C05 speaks of all messages)
    try:
        msg = build_message(P, ids, pl.tgt, pl.srcs, pl.new, addr=story_ref)
    finally:
        B.Ctx.mid = None
    out = B.merge(ro, msg)
    B.hit()
    rc2 = B.rc_of(ro)
    sig = None
    ok = True
    if prop == 'exc':
        ok = (not out.raised) or isinstance(out.exc, MosMergeError)
        sig = None if ok else 'escaped-' + type(out.exc).__name__
    elif prop == 'atomic':
        ok = (not out.raised) or B.snap(ro.xml) == root_snap
        sig = None if ok else 'changed-before-raising-' + type(out.exc).__name__
    elif prop == 'envelope':
        sig = envelope_ok(ro, mid_obj, roid_obj)
        if sig is None and isinstance(out.exc, B.BadReturn):
            sig = 'running-order-lost-merge-returned-something-else'
        ok = sig is None
    elif prop == 'report':
        if out.raised:
            ok = isinstance(out.exc, MosMergeError) and bool(expected_warnings(P, pl))
            sig = None if ok else 'raised-' + type(out.exc).__name__
        else:
            want = sorted(expected_warnings(P, pl))
            got = sorted(out.cats())
            cont2 = cont if level == 'story' else next(
                (s for s in rc2.findall('story') if s is cont), None)
            after = keys(level, rc2 if level == 'story' else cont2)
            exp = expected_keys(P, pl, before)
            if got != want:
                ok = False
                sig = 'warnings-%s-instead-of-%s' % ('+'.join(got) or 'none', '+'.join(want) or 'none')
            elif after != exp:
                ok = False
                sig = 'resolvable-part-not-applied'
            if B.Ctx.replay:
                B.note(observed={'warnings': got, 'keys': after}, expected={'warnings': want, 'keys': exp})
    elif prop == 'frame':
        aff_i, dis_i = affected_displaced(P, pl)
        aff = [before_keyed[i] for i in aff_i]
        dis = [before_keyed[i] for i in dis_i]
        if isinstance(out.exc, B.BadReturn):
            # after `ro += msg` the caller holds no running order any more: everything the message did not name is gone
            sig = 'running-order-lost-merge-returned-something-else'
        elif rc2 is not rc:
            sig = 'roCreate-replaced'
        elif level == 'story':
            sig = frame_ok(rc_children, rc_snaps, list(rc2), aff, dis)
        else:
            # roCreate's own children: all the same elements, same order; other story untouched
            sig = frame_ok(rc_children, rc_snaps, list(rc2), [cont], [])
            if sig is None and not any(c is cont for c in rc2):
                sig = 'addressed-story-replaced'
            if sig is None:
                j = idx_of(list(rc2), cont)
                if j != idx_of(rc_children, cont):
                    sig = 'addressed-story-displaced'
            if sig is None:
                sig = frame_ok(cont_children, cont_snaps, list(cont), aff, dis)
        if sig is None:
            # envelope outside roCreate
            if [c for c in root_snap[4] if c[0] != 'roCreate'] != [B.snap(c) for c in ro.xml if c.tag != 'roCreate']:
                sig = 'envelope-altered'
        ok = sig is None
    else:
        raise ValueError(prop)
    if B.Ctx.replay:
        B.note(sig=sig, exception=out.exc, warnings=out.cats(), before=before,
               after=keys(level, rc2 if level == 'story' else cont))
        B.Ctx.info.setdefault('observed', {'keys': B.Ctx.info.get('after'), 'exception': B.conc(out.exc),
                                           'warnings': out.cats()})
        B.Ctx.info.setdefault('expected', prop)
    return ok


# ---------------------------------------------------------------------------------------
# cell tables
# ---------------------------------------------------------------------------------------

def slot_space(op, mode):
    """Kinds per slot to enumerate.  mode: 'frame'/'atomic'/'exc' include degenerate kinds,
    'report' only the kinds C06 speaks about."""
    level, has_t, has_src, has_new = OPS[op]
    k = kind_of(op)
    story_ks = ['existing', 'unknown', 'blank'] if level == 'item' else [None]
    if op in ('EAItemDelete', 'EAItemSwap'):
        story_ks.append('absent')            # the whole element_target is missing
    tks = [None]
    if has_t:
        tks = ['existing', 'unknown', 'blank']
        if op in ('roStoryMove', 'EAStoryMove', 'EAStoryInsert'):
            tks.append('absent')
        if k in ('Move', 'MoveMultiple') and mode != 'report':
            tks.append('source')
    sks = [None]
    if has_src:
        if k == 'Swap':
            sks = [['existing', 'existing'], ['existing', 'unknown'], ['unknown', 'existing'],
                   ['existing', 'blank'], ['blank', 'existing'], ['unknown', 'same'], ['blank', 'same']]
            if mode != 'report':
                sks.append(['existing', 'same'])
        elif op in ('roStoryMove', 'roStorySend'):
            sks = [['existing'], ['unknown'], ['blank']]
        else:
            sks = [['existing'], ['unknown'], ['blank'], ['existing', 'existing'], ['existing', 'unknown'],
                   ['unknown', 'existing'], ['blank', 'existing'], ['existing', 'blank']]
            if k == 'Delete' or mode != 'report':
                sks.append(['existing', 'same'])
    if has_src and mode in ('atomic', 'envelope') and k not in ('Swap', 'Send') and op not in ('roStoryMove', 'EAItemMove', 'EAItemDelete'):
        # degenerate messages that name no source at all (for roItemMoveMultiple: not even a target)
        sks.append([])
        if op == 'roItemMoveMultiple':
            tks.append('absent')
    nks = [None]
    if has_new:
        nks = [['fresh'], ['fresh', 'fresh']]
        if mode in ('atomic', 'envelope'):
            nks.append([])                    # ... or carry nothing
        if level == 'story' and k == 'Insert':
            nks += [['dup'], ['dup', 'fresh'], ['fresh', 'dup'], ['dup', 'dup2'], ['dup', 'fresh', 'dup2']]
        if level == 'item':
            nks += [['other'], ['fresh', 'other']]
            if mode in ('atomic', 'exc', 'envelope'):
                # an inserted / replacing item whose ID the story already holds
                nks += [['dup'], ['fresh', 'dup']]
        if level == 'story' and k == 'Replace' and mode != 'report':
            # a replacement story that carries the ID of another story of the running order
            nks += [['dup'], ['fresh', 'dup'], ['fresh', 'fresh', 'dup']]
    return story_ks, tks, sks, nks


def make_cells(pid, prop, tier, ops=None, N=None, mode=None, thin=None, extra=None, suffix='', idlen=1):
    from .cells import Cell, distinct, str_pre
    mode = mode or prop
    out = []
    T_ = 60 if tier == 'quick' else 600
    if N is None:
        N = 3 if tier == 'quick' else 4      # thorough: one more story / item, three-element source lists
    for op in (ops or OPS):
        level, has_t, has_src, has_new = OPS[op]
        story_ks, tks, sks, nks = slot_space(op, mode)
        if tier == 'thorough' and sks != [None] and kind_of(op) not in ('Swap', 'Send') and op != 'roStoryMove':
            sks = sks + [['existing', 'existing', 'existing'], ['existing', 'unknown', 'existing'],
                         ['existing', 'existing', 'blank']]
        for story_k in story_ks:
            for tk in tks:
                for sk in sks:
                    for nk in nks:
                        if thin and not thin(op, story_k, tk, sk, nk):
                            continue
                        if tk == 'source' and (not sk or sk[0] != 'existing'):
                            continue
                        if op == 'roItemMoveMultiple' and tk == 'absent' and sk != []:
                            continue
                        if story_k not in (None, 'existing') and (
                                (tk not in (None, 'existing')) or (sk and sk != ['existing'] * len(sk))
                                or (nk and len(nk) > 1)):
                            continue   # unresolvable story: other slots stay plain
                        P = {'op': op, 'N': N, 'prop': prop}
                        if extra:
                            P.update(extra)
                        sym = [('s%d' % i, 'str') for i in range(N)]
                        strs = ['s%d' % i for i in range(N)]
                        pre = []
                        if level == 'item':
                            P['story_k'] = story_k
                            sym += [('p0', 'str'), ('p1', 'str')]
                            pre += str_pre(['p0', 'p1'], idlen) + ['p0 != p1']
                            if story_k == 'unknown':
                                pre += ['x != p0', 'x != p1']
                        need_x = story_k == 'unknown'
                        if has_t:
                            P['tk'] = tk
                            if tk == 'existing':
                                sym.append(('t', 'int'))
                                pre.append('0 <= t < %d' % N)
                            need_x |= tk == 'unknown'
                        if has_src:
                            P['sk'] = sk
                            us = []
                            for j, kind in enumerate(sk):
                                if kind == 'existing':
                                    sym.append(('u%d' % j, 'int'))
                                    pre.append('0 <= u%d < %d' % (j, N))
                                    us.append('u%d' % j)
                                need_x |= kind == 'unknown'
                            pre += distinct(us)
                            if has_t and tk == 'existing':
                                pre += ['t != %s' % u for u in us]
                        if has_new:
                            P['nk'] = nk
                            for j, kind in enumerate(nk):
                                if kind == 'fresh':
                                    sym.append(('n%d' % j, 'str'))
                                    strs.append('n%d' % j)
                            if 'other' in nk:
                                sym.append(('e0', 'str'))
                                strs.append('e0')
                            if 'dup' in nk:
                                sym.append(('d', 'int'))
                                pre.append('0 <= d < %d' % N)
                                if has_t and tk == 'existing' and kind_of(op) == 'Replace':
                                    pre.append('d != t')
                            if 'dup2' in nk:
                                sym.append(('d2', 'int'))
                                pre.append('0 <= d2 < %d' % N)
                                pre.append('d2 != d')
                        if need_x:
                            sym.append(('x', 'str'))
                            strs.append('x')
                        if prop == 'frame':
                            sym += [('c0', 'str'), ('c1', 'str')]
                            pre += str_pre(['c0', 'c1'])
                        pre = str_pre(strs, idlen) + distinct(strs) + pre
                        parts = [pid, op]
                        if story_k and story_k != 'existing':
                            parts.append('story-' + story_k)
                        if tk:
                            parts.append('t-' + tk)
                        if sk is not None:
                            parts.append('s-' + ('+'.join(sk) or 'none'))
                        if nk is not None:
                            parts.append('n-' + ('+'.join(nk) or 'none'))
                        if suffix:
                            parts.append(suffix)
                        cost = N ** (sum(1 for n, t in sym if t == 'int'))
                        out.append(Cell(pid=pid, cid='/'.join(parts), harness='h_merge:full_cell', params=P,
                                        sym=sym, pre=pre, stubs=('hash',), timeout=T_, cost=cost))
    return out
