"""C13 - merging depends only on content; message objects stay independent."""
from . import build as B
from . import msgs as M
from .build import E, T
from .h_payload import rich_item, rich_story

PAYLOAD_OPS = ('roStoryAppend', 'roStoryInsert', 'roStoryReplace', 'EAStoryInsert', 'EAStoryReplace', 'EAStoryInsert-end',
               'roStoryInsert-last', 'roStoryInsert-dup', 'EAStoryInsert-dup',
               'roItemInsert', 'roItemReplace', 'EAItemInsert', 'EAItemReplace', 'roMetadataReplace',
               'roDelete', 'roStorySend', 'roReplace', 'roReplace-skeleton', 'roStoryReplace-skeleton',
               'roItemInsert-blank-id', 'EAItemReplace-blank-id', 'roStoryAppend-blank-id', 'EAStoryInsert-no-target',
               'EAStoryMove-no-target', 'EAStorySwap')


def fresh_ro(ids, item_ids, c0):
    stories = []
    for j, s in enumerate(ids):
        st_ = B.story(s, slug='ss', timing=B.timing_block(dur='10'),
                      body=[B.item(i, slug='old') for i in item_ids] + [T('p', c0)])
        st_.insert(2, T('storyNum', 'num-%d' % j))      # optional details a skeleton replacement does not carry
        st_.set('revision', 'r%d' % j)
        stories.append(st_)
    return B.running_order(stories, lead=3, trail=1)


def make_msg(op, ids, item_ids, n0, c0, c1, n1=None):
    """The payload-carrying message (a new object with the same content on every call)."""
    if op in ('roStoryAppend', 'roStoryInsert', 'roStoryReplace', 'EAStoryInsert', 'EAStoryReplace', 'EAStoryInsert-end',
              'roStoryInsert-last', 'roStoryInsert-dup', 'EAStoryInsert-dup'):
        st = [rich_story(n0, c0, c1)]
        if n1 is not None:
            st = [rich_story(n1, c0, c1), rich_story(n0, c0, c1)]     # the edited one is the SECOND carried story
        return {'roStoryAppend': lambda: M.story_append(st),
                'roStoryInsert': lambda: M.story_insert(ids[0], st),
                'roStoryReplace': lambda: M.story_replace(ids[0], st),
                'EAStoryInsert': lambda: M.ea_story_insert(ids[0], st),
                'EAStoryInsert-end': lambda: M.ea_story_insert(None, st),
                'roStoryInsert-dup': lambda: M.story_insert(ids[0], [rich_story(ids[1], c0, c1)] + st),
                'EAStoryInsert-dup': lambda: M.ea_story_insert(ids[0], st + [rich_story(ids[1], c0, c1)]),
                'roStoryInsert-last': lambda: M.story_insert(ids[1], st),
                'EAStoryReplace': lambda: M.ea_story_replace(ids[0], st)}[op]()
    if op in ('roItemInsert', 'roItemReplace', 'EAItemInsert', 'EAItemReplace'):
        it = [rich_item(n0, c0, c1)]
        if n1 is not None:
            it = [rich_item(n1, c0, c1), rich_item(n0, c0, c1)]
        return {'roItemInsert': lambda: M.item_insert(ids[0], item_ids[0], it),
                'roItemReplace': lambda: M.item_replace(ids[0], item_ids[0], it),
                'EAItemInsert': lambda: M.ea_item_insert(ids[0], item_ids[0], it),
                'EAItemReplace': lambda: M.ea_item_replace(ids[0], item_ids[0], it)}[op]()
    if op == 'roMetadataReplace':
        return M.metadata_replace([T('roSlug', c1), T('roEdStart', c1), T('roEdDur', c0),      # roEdDur: not in the RO yet
                                   E('mosExternalMetadata', T('mosSchema', c1), E('mosPayload', T('Owner', c0)))])
    if op == 'roDelete':
        return M.ro_delete()
    if op == 'roStorySend':
        return M.story_send(ids[0], body=[E('p', text=c0), _si(rich_item('ci0', c0, c1)), _si(rich_item('ci1', c0, c1))],
                            slug=c1, pre=[B.timing_block(dur='9')])
    if op == 'roReplace':
        return M.ro_replace([T('roSlug', c1), rich_story(n0, c0, c1), rich_story(ids[0], c0, c1)])
    if op == 'roReplace-skeleton':
        # the usual roReplace: story skeletons (ID and slug only) under the IDs the running order already has
        return M.ro_replace([T('roSlug', c1), B.story(ids[1], slug=c1), B.story(ids[0], slug=c1), rich_story(n0, c0, c1)])
    if op == 'roStoryReplace-skeleton':
        return M.story_replace(ids[0], [B.story(ids[0], slug=c1), B.story(n0, slug=c1, timing=B.timing_block(dur='4'))])
    if op == 'roItemInsert-blank-id':
        return M.item_insert(ids[0], item_ids[0], [rich_item(None, c0, c1), rich_item(n0, c0, c1)])
    if op == 'EAItemReplace-blank-id':
        return M.ea_item_replace(ids[0], item_ids[0], [rich_item(n0, c0, c1), rich_item(None, c0, c1)])
    if op == 'EAStoryInsert-no-target':
        return M.ea_story_insert(M.ABSENT, [rich_story(n0, c0, c1)])        # no <element_target> at all
    if op == 'EAStoryMove-no-target':
        return M.ea_story_move(M.ABSENT, [ids[0]])
    if op == 'EAStorySwap':
        return M.ea_story_swap(ids[0], ids[1])
    if op == 'roStoryAppend-blank-id':
        return M.story_append([rich_story(None, c0, c1), rich_story(n0, c0, c1)])
    raise ValueError(op)


def _si(it):
    it.tag = 'storyItem'
    return it


def later_edit(op, edit, ids, item_ids, n0, c1, second=False):
    """A later message that touches what the first one carried."""
    carried_story = n0 if op in ('roStoryAppend', 'roStoryInsert', 'roStoryReplace', 'EAStoryInsert', 'EAStoryInsert-end',
                                 'roStoryInsert-last', 'EAStoryReplace', 'roReplace', 'roStoryInsert-dup',
                                 'EAStoryInsert-dup', 'roReplace-skeleton', 'roStoryAppend-blank-id',
                                 'EAStoryInsert-no-target') else ids[0]
    inner = 'ci1' if second else 'ci0'
    if op in ('roItemInsert', 'roItemReplace', 'EAItemInsert', 'EAItemReplace', 'roItemInsert-blank-id',
              'EAItemReplace-blank-id'):
        inner = n0 if not second else item_ids[-1]
    if edit == 'item-delete':
        return M.item_delete(carried_story, [inner])
    if edit == 'item-insert':
        return M.item_insert(carried_story, None, [B.item('added2' if second else 'added', slug=c1)])
    if edit == 'item-replace':
        return M.item_replace(carried_story, inner, [B.item('repl2' if second else 'repl', slug=c1)])
    if edit == 'ea-item-swap':
        return M.ea_item_swap(carried_story, 'ci0', 'ci1')
    if edit == 'story-delete':
        return M.story_delete([carried_story])
    if edit == 'story-send':
        return M.story_send(carried_story, body=[T('p', c1)], pre=[B.timing_block(dur='3')])
    if edit == 'metadata':
        return M.metadata_replace([T('roSlug', 'again2' if second else 'again'), T('roEdStart', None),
                                   T('roEdDur', 'later2' if second else 'later'),
                                   E('mosExternalMetadata', T('mosSchema', c1), E('mosPayload', T('Owner', 'z')))])
    if edit == 'ro-delete':
        return M.ro_delete(msg_id='99')
    raise ValueError(edit)


def elements(root):
    return list(root.iter())


def shares(a, b):
    eb = elements(b)
    for x in elements(a):
        for y in eb:
            if x is y:
                return True
    return False


def sharing_cell(P, A):
    op, edit = P['op'], P['edit']
    ids = [A['s0'], A['s1']]
    item_ids = [A['i0'], A['i1']]
    n0, c0, c1 = A['n0'], A['c0'], A['c1']
    ro1 = fresh_ro(ids, item_ids, c0)
    n1 = A.get('n1')
    msg = make_msg(op, ids, item_ids, n0, c0, c1, n1)
    msg_snap = B.snap(msg.xml)
    sig = None
    # looking at a message (its documented accessors) is not a change of its content either
    def _look():
        for name in ('story', 'stories', 'item', 'items', 'source_story', 'target_story', 'source_stories', 'source_items',
                     'target_item', 'message_id', 'ro_id', 'base_tag'):
            try:
                v = getattr(msg, name, None)
                if isinstance(v, (list, tuple)):
                    [getattr(e, 'id', None) for e in v]
                elif v is not None:
                    getattr(v, 'id', None)
            except Exception:
                pass
    _look()
    if B.snap(msg.xml) != msg_snap:
        sig = 'message-modified-by-reading-its-accessors'
    o = B.merge(ro1, msg)
    if o.raised:
        B.note(sig='first-merge-raised-' + type(o.exc).__name__, observed=B.conc(o.exc))
        return False
    if sig is None and B.snap(msg.xml) != msg_snap:
        sig = 'message-modified-by-its-own-merge'
    if sig is None and shares(msg.xml, ro1.xml):
        sig = 'message-and-running-order-share-elements'
    # later change to the running order that touches the carried content
    if sig is None and edit != 'none' and op != 'roDelete':
        o2 = B.merge(ro1, later_edit(op, edit, ids, item_ids, n0, c1))
        if o2.raised:
            B.note(sig='later-edit-raised-' + type(o2.exc).__name__, observed=B.conc(o2.exc))
            return False
        if B.snap(msg.xml) != msg_snap:
            sig = 'message-modified-by-later-merge'
    # re-use of the same message object vs a freshly built copy
    if sig is None:
        ro2 = fresh_ro(ids, item_ids, c0)
        ro2f = fresh_ro(ids, item_ids, c0)
        msgf = make_msg(op, ids, item_ids, n0, c0, c1, n1)
        a = B.merge(ro2, msg)
        b = B.merge(ro2f, msgf)
        if a.raised != b.raised or a.cats() != b.cats():
            sig = 'reused-message-outcome-differs'
        elif B.snap(ro2.xml) != B.snap(ro2f.xml):
            sig = 'reused-message-result-differs'
        elif shares(ro1.xml, ro2.xml):
            sig = 'two-running-orders-share-elements'
        elif op != 'roDelete' and edit not in ('none', 'ro-delete'):
            snap2 = B.snap(ro2.xml)
            o3 = B.merge(ro1, later_edit(op, edit if edit not in ('story-delete',) else 'metadata',
                                         ids, item_ids, n0, c1, second=True))
            if B.snap(ro2.xml) != snap2:
                sig = 'edit-of-one-running-order-changed-the-other'
            elif B.snap(msg.xml) != msg_snap:
                sig = 'message-modified-by-later-merge'
    if sig is None and op != 'roDelete':
        # the same object merged again and again into one running order behaves like a fresh copy each time
        ro3, ro3f = fresh_ro(ids, item_ids, c0), fresh_ro(ids, item_ids, c0)
        for rnd in range(3):
            a = B.merge(ro3, msg)
            b = B.merge(ro3f, make_msg(op, ids, item_ids, n0, c0, c1, n1))
            if a.raised != b.raised or a.cats() != b.cats():
                sig = 'repeated-merge-%d-outcome-differs-from-fresh-copy' % (rnd + 1)
                break
            if B.snap(ro3.xml) != B.snap(ro3f.xml):
                sig = 'repeated-merge-%d-result-differs-from-fresh-copy' % (rnd + 1)
                break
        if sig is None and B.snap(msg.xml) != msg_snap:
            sig = 'message-modified-by-repeated-merges'
    B.hit()
    if B.Ctx.replay:
        B.note(sig=sig, observed=sig, expected='message and running orders independent')
    return sig is None
