"""Cell = one harness instantiation = one CrossHair condition = one obligation."""
import importlib
import itertools
from dataclasses import dataclass, field

PRINTABLE = "32 <= ord({v}) <= 126"


@dataclass
class Cell:
    pid: str
    cid: str
    harness: str                      # 'module:function' under vlib
    params: dict                      # concrete (JSON-able) cell parameters
    sym: list                         # [(name, 'str'|'int'|'bool'), ...] solver variables
    pre: list = field(default_factory=list)   # precondition expressions over the names
    stubs: tuple = ()                 # subset of ('hash', 'float')
    timeout: float = 60.0
    cost: float = 1.0                 # scheduling hint (bigger first)
    example: dict = None              # concrete arguments satisfying pre (auto-derived)
    functions: tuple = ()             # functions of /repo this cell targets (informational)

    def source(self):
        args = ', '.join('%s: %s' % (n, t) for n, t in self.sym)
        pre = '\n'.join('    pre: %s' % p for p in self.pre)
        mod, fn = self.harness.split(':')
        call = ', '.join('%s=%s' % (n, n) for n, _ in self.sym)
        return (
            'import re\nimport vlib.%s as M\n'
            'P = %r\n'
            'def cell(%s) -> bool:\n'
            '    """\n%s\n    post: _\n    """\n'
            '    return M.%s(P, dict(%s))\n'
            'def twin(%s) -> bool:\n'
            '    """\n%s\n    post: False\n    """\n'
            '    M.%s(P, dict(%s))\n'
            '    return True\n'
        ) % (mod, self.params, args, pre, fn, call, args, pre, fn, call)

    def harness_fn(self):
        mod, fn = self.harness.split(':')
        return getattr(importlib.import_module('vlib.' + mod), fn)

    def pre_holds(self, a):
        env = dict(a)
        env['P'] = self.params
        import re
        env['re'] = re
        try:
            return all(eval(p, {'__builtins__': __builtins__}, env) for p in self.pre)
        except Exception:
            return False

    def derive_example(self):
        """Smallest concrete argument tuple satisfying the preconditions (for anchor runs)."""
        if self.example is not None:
            return self.example
        strs = [n for n, t in self.sym if t == 'str']
        ints = [n for n, t in self.sym if t == 'int']
        bools = [n for n, t in self.sym if t == 'bool']
        letters = 'abcdefghijklmnopqrstuvwxyz'
        # the concrete anchor goes through the real parser and the public API: give it the characters that are
        # awkward for XML, XPath, CSV-like splitting and whitespace handling; contents (c0, c1, ...) get
        # non-ASCII and supplementary-plane characters.  Plain letters are the fallback when the
        # preconditions (regular expressions, alphabets) do not admit these.
        nasty = ["'", '"', ',', '&', '<', ']', '=', '/', '@', '[', '(', '%', '+', '#', ';', ':', '>', '*', '?', '|']
        content = ['\U0001F600', '\u00e9', '\u4e2d', '\u00df']
        # (multi-character contents that look like markup or character references after parsing are used by the
        # explicit examples of the payload, script and accessor cells)
        import re as _re
        want_len = {}
        for pr in self.pre:
            for m in _re.finditer(r'len\((\w+)\) == (\d+)', pr):
                want_len[m.group(1)] = int(m.group(2))
        bases = [
            {n: (content[i % 4] if _re.fullmatch(r'c\d', n) else
                 (nasty[i % len(nasty)] + ' ' * (want_len.get(n, 1) - 1))[:max(1, want_len.get(n, 1))])
             for i, n in enumerate(strs)},
            {n: (nasty[i % len(nasty)] + ' ' * (want_len.get(n, 1) - 1))[:max(1, want_len.get(n, 1))] for i, n in enumerate(strs)},
            {n: letters[i % 26] * want_len.get(n, 1 + i // 26) for i, n in enumerate(strs)},
        ]
        for base in bases:
            for combo in itertools.product(range(-1, 6), repeat=len(ints)):
                for bcombo in itertools.product((False, True), repeat=len(bools)):
                    a = dict(base)
                    a.update(zip(ints, combo))
                    a.update(zip(bools, bcombo))
                    if self.pre_holds(a):
                        self.example = a
                        return a
        return None


LITERAL_IDS = ['SRV1;FOLDER;100', 'SRV2;FOLDER;100', '\u00e9\u4e2d\U0001F600', 'None', '100', 'A,100', 'B,100', '0', 'storyID', 'x' * 120, ' a b ', 'False',
               'a.b:100', 'c.b:100', 'nan', '-1', 'item', '1e3', 'roCreate', '..', '*', "it's", 'p', '100;',
               ';100', 'a/100', 'b/100']


CONTENT_TEXTS = ['NATIONS&REGIONS &copy; AT&amp;T &#38; &lt;VT&gt; \U0001F600', ' R&D&para 4 \u00e9 ', '&amp;lt;b&amp;gt;', '\u00a0x\u2028y']


def id_variant(cell, ex):
    """The same example with every one-character ID replaced by a longer / literal-looking one (equal values stay
    equal, different values stay different): IDs are opaque strings, so the verdict must be the same."""
    if ex is None:
        return None
    one_char = [n for n, t in cell.sym if t == 'str' and ('len(%s) == 1' % n) in cell.pre and
                PRINTABLE.format(v=n) in cell.pre]
    idlike = [n for n in one_char if not (len(n) == 2 and n[0] in 'cq' and n[1].isdigit())]
    contents = [n for n in one_char if len(n) == 2 and n[0] == 'c' and n[1].isdigit()]
    if not idlike and not contents:
        return None
    mapping, out = {}, dict(ex)
    # free texts (slugs, paragraph texts, attribute values) become texts that still look like markup, entities
    # or character references after parsing, with supplementary-plane characters and significant whitespace
    for i, n in enumerate(contents):
        if isinstance(ex.get(n), str):
            out[n] = CONTENT_TEXTS[i % len(CONTENT_TEXTS)]
    for n in idlike:
        v = ex.get(n)
        if not isinstance(v, str):
            return None
        if v not in mapping:
            mapping[v] = LITERAL_IDS[len(mapping) % len(LITERAL_IDS)] + ('' if len(mapping) < len(LITERAL_IDS) else str(len(mapping)))
        out[n] = mapping[v]
    return out


def distinct(names):
    return ['%s != %s' % (x, y) for x, y in itertools.combinations(names, 2)]


def str_pre(names, length=1):
    """Preconditions for ID-like strings: fixed length, printable ASCII (renderable as XML).
    length='1-2': one or two characters, so that one ID may be a prefix / suffix of another."""
    out = []
    if length == '1-2':
        # the second ID of the list and the unknown ID 'x' have two characters, all others one: the solver may
        # make a one-character ID the prefix or the suffix of a two-character one, or pad it with a space
        # (fixed lengths do not fork)
        for i, n in enumerate(names):
            if i == 1 or n == 'x':
                out += ['len(%s) == 2' % n, '32 <= ord(%s[0]) <= 126' % n, '32 <= ord(%s[1]) <= 126' % n]
            else:
                out += ['len(%s) == 1' % n, '32 <= ord(%s) <= 126' % n]
        return out
    for n in names:
        out.append('len(%s) == %d' % (n, length))
        if length == 1:
            out.append(PRINTABLE.format(v=n))
        else:
            out.append("all(32 <= ord(_c) <= 126 for _c in %s)" % n)
    return out
