"""C15 (accessors never raise, agree with the XML), C16 (timing arithmetic), C17 (script/body)."""
from datetime import datetime, timedelta

import mosromgr.mostypes as mt
from mosromgr.moselements import Item, Story

from . import build as B
from . import msgs as M
from .build import E, T

# stub S10: timestamps are concrete strings chosen by symbolic index
from dateutil.tz import tzoffset, tzutc
# indexes 0..2 carry no zone designator, 3..4 do (an aware roEdStart next to naive story stamps and the reverse are
# both legal documents: nothing in the library may subtract or order them)
STAMPS = ['2022-03-04T12:29:45', '2022-11-16T13:00', '2023-02-01T00:00:07', '2022-03-04T12:29:45+01:00',
          '2022-11-16T13:00:00Z']
STAMP_VALUES = [datetime(2022, 3, 4, 12, 29, 45), datetime(2022, 11, 16, 13, 0, 0), datetime(2023, 2, 1, 0, 0, 7),
                datetime(2022, 3, 4, 12, 29, 45, tzinfo=tzoffset(None, 3600)),
                datetime(2022, 11, 16, 13, 0, 0, tzinfo=tzutc())]

# timing variants of a story: which of StoryDuration / TextTime / MediaTime exist
VARIANTS = {
    'none': (False, False, False), 'block-empty': (False, False, False),
    'SD': (True, False, False), 'TT': (False, True, False), 'MT': (False, False, True),
    'TT+MT': (False, True, True), 'SD+TT+MT': (True, True, True), 'SD+TT': (True, True, False),
}


def num(x):
    """Durations are integers; rendered as text only when going through the real parser."""
    return str(x) if B.Ctx.replay else x


def timing(variant, sd, tt, mt_, started=None, ended=None):
    if variant == 'none' and started is None and ended is None:
        return None
    has_sd, has_tt, has_mt = VARIANTS[variant]
    return B.timing_block(dur=num(sd) if has_sd else None, text_time=num(tt) if has_tt else None,
                          media_time=num(mt_) if has_mt else None, started=started, ended=ended)


def spec_duration(variant, sd, tt, mt_):
    has_sd, has_tt, has_mt = VARIANTS[variant]
    if has_sd:
        return sd
    if has_tt or has_mt:
        return (tt if has_tt else 0) + (mt_ if has_mt else 0)
    return None


def same(a, b):
    if a is None or b is None:
        return a is None and b is None
    return a == b


def timing_cell(P, A):
    """C16: durations, offsets, start/end times against linear integer arithmetic over the same
    solver variables.  P['variants'] per story; P['started']/P['ended']: per story index into
    STAMPS or None; P['edstart']: 'present' | 'absent' | 'blank'."""
    N = P['N']
    variants = P['variants']
    ids = [A['s%d' % i] for i in range(N)]
    if P.get('blank_id') is not None:
        ids[P['blank_id']] = None          # <storyID/>: offsets are keyed by ID, a blank one is still a story
    # concrete anchors may spell a number the way a document can ('2.5e1', '.5', '+3', ' 7 '): the document gets
    # the spelling, the specification its value
    val = lambda x: float(x) if isinstance(x, str) else x
    sd_d = [A.get('sd%d' % i, 0) for i in range(N)]
    tt_d = [A.get('tt%d' % i, 0) for i in range(N)]
    mt_d = [A.get('mt%d' % i, 0) for i in range(N)]
    sd, tt, mt_ = [val(x) for x in sd_d], [val(x) for x in tt_d], [val(x) for x in mt_d]
    started = P.get('started') or [None] * N
    ended = P.get('ended') or [None] * N
    stories = []
    for i in range(N):
        st = STAMPS[started[i]] if started[i] is not None else None
        en = STAMPS[ended[i]] if ended[i] is not None else None
        tb_ = timing(variants[i], sd_d[i], tt_d[i], mt_d[i], st, en)
        if tb_ is not None and P.get('payload_order') == 'reversed':
            # the order of the payload's children is free: StoryEnded, StoryStarted, MediaTime, TextTime, StoryDuration
            pl_ = tb_.find('mosPayload')
            kids_ = list(pl_)
            for k_ in kids_:
                pl_.remove(k_)
            for k_ in reversed(kids_):
                pl_.append(k_)
        if P.get('meta_last'):
            # the layout a roStorySend leaves behind: an item with its own payload first, the story's block last
            own = B.item('it%d' % i, note_text='n', extra=B.decoys('zz', 'yy'))
            stories.append(E('story', T('storyID', ids[i]), T('storySlug', 's'), own, T('p', 'x'), tb_))
        else:
            stories.append(B.story(ids[i], slug='s', timing=tb_, body=[T('p', 'x')]))
    ed = P.get('edstart', 'present')
    edi = P.get('edstamp', 0)
    lead = 3 if ed in ('present', 'blank') else 2
    ro = B.running_order(stories, lead=lead, edstart=STAMPS[edi] if ed == 'present' else None)
    if ed == 'after':
        # roEdStart added later by a roMetadataReplace: it sits after the stories
        B.rc_of(ro).append(T('roEdStart', STAMPS[edi]))
    if P.get('pre_op'):
        # the relations must hold again after a merge that reorders the stories
        out0 = B.merge(ro, M.ea_story_swap(ids[0], ids[N - 1]))
        if out0.raised:
            B.note(sig='pre-op-raised', observed=B.conc(out0.exc))
            return False
        order = [N - 1] + list(range(1, N - 1)) + [0] if N > 1 else [0]
    else:
        order = list(range(N))
    ro_start = STAMP_VALUES[edi] if ed in ('present', 'after') else None
    variants, started, ended = list(variants), list(started), list(ended)
    sig = check_timing(ro, order, variants, sd, tt, mt_, started, ended, ro_start, N)
    r = P.get('resend')
    if sig is None and r is not None:
        # history: the accessors have been read; now the r-th story is re-sent with a new duration
        # (same ID, same position) and everything must be consistent again
        nd_d = A['nd']
        nd = val(nd_d)
        o = B.merge(ro, M.story_send(ids[order[r]], body=[T('p', 'again')], pre=[B.timing_block(dur=num(nd_d))]))
        if o.raised or o.warns:
            B.note(sig='resend-failed', observed=B.conc(o.exc))
            return False
        i = order[r]
        variants[i], sd[i], started[i], ended[i] = 'SD', nd, None, None
        sig = check_timing(ro, order, variants, sd, tt, mt_, started, ended, ro_start, N)
        if sig is not None:
            sig = 'after-resend-' + sig
    if sig is None and P.get('restart') is not None:
        # history: the accessors have been read; a roMetadataReplace now changes (or first supplies) roEdStart
        o = B.merge(ro, M.metadata_replace([T('roSlug', 'again'), T('roEdStart', STAMPS[P['restart']])]))
        if o.raised:
            B.note(sig='restart-failed', observed=B.conc(o.exc))
            return False
        sig = check_timing(ro, order, variants, sd, tt, mt_, started, ended, STAMP_VALUES[P['restart']], N)
        if sig is not None:
            sig = 'after-new-roEdStart-' + sig
    if B.Ctx.replay:
        B.note(sig=sig)
    return sig is None


def check_timing(ro, order, variants, sd, tt, mt_, started, ended, ro_start, N):
    out = B.call(lambda: observe_timing(ro))
    B.hit()
    if out.raised:
        B.note(observed=B.conc(out.exc), expected='no exception')
        return 'raised-' + type(out.exc).__name__
    got = out.result
    durs = [spec_duration(variants[i], sd[i], tt[i], mt_[i]) for i in order]
    all_have = all(d is not None for d in durs)
    exp_st, sig = [], None
    if len(got['stories']) != N:
        sig = 'story-count'
    else:
        t = 0
        for pos, i in enumerate(order):
            g = got['stories'][pos]
            d = durs[pos]
            if not same(g['duration'], d):
                sig = 'duration-%d' % pos
                break
            if all_have:
                if not same(g['offset'], t):
                    sig = 'offset-%d' % pos
                    break
                off = t
                t = t + d
            else:
                off = g['offset']   # unspecified by the property when some story has no duration
            if started[i] is not None:
                st = STAMP_VALUES[started[i]]
            elif ro_start is not None and off is not None:
                st = ro_start + timedelta(seconds=off)
            else:
                st = None
            if all_have or started[i] is not None or ro_start is None:
                if not same(g['start'], st):
                    sig = 'start-%d' % pos
                    break
            else:
                st = g['start']
            if ended[i] is not None:
                en = STAMP_VALUES[ended[i]]
            elif st is not None and d is not None:
                en = st + timedelta(seconds=d)
            else:
                en = None
            if not same(g['end'], en):
                sig = 'end-%d' % pos
                break
            exp_st.append((d, off, st, en))
        if sig is None:
            if all_have and not same(got['duration'], sum(durs) if durs else 0):
                sig = 'ro-duration'
            elif not same(got['start'], ro_start):
                sig = 'ro-start'
            elif N and not same(got['end'], exp_st[-1][3]):
                sig = 'ro-end'
    if B.Ctx.replay:
        B.note(observed=repr(got), expected=repr(exp_st))
    return sig


def observe_timing(ro):
    sts = ro.stories
    return {
        'stories': [{'duration': s.duration, 'offset': s.offset, 'start': s.start_time, 'end': s.end_time}
                    for s in sts],
        'duration': ro.duration, 'start': ro.start_time, 'end': ro.end_time,
    }


# ---------------------------------------------------------------------------------------
# C15
# ---------------------------------------------------------------------------------------

def opt(flag, el):
    return el if flag else None


def accessor_cell(P, A):
    """C15: every documented read accessor returns without raising and agrees with the tree.
    Presence of each optional element is a solver-chosen boolean; IDs/slugs/notes are strings."""
    N = P['N']
    ids = [A['s%d' % i] for i in range(N)]
    iid, slug, note_t, obj = A['i0'], A['c0'], A['c1'], A['c2']
    variants = P['variants']
    flags = P.get('flags', {})
    f = lambda name: bool(A[name]) if name in A else bool(flags.get(name, False))
    stories, spec = [], []
    for i in range(N):
        has_slug = f('sl%d' % i)
        has_item2 = f('it%d' % i)
        it1 = E('item', T('itemID', iid), opt(f('isl%d' % i), T('itemSlug', slug)),
                opt(f('io%d' % i), T('objID', obj)), opt(f('im%d' % i), T('mosID', 'mos.x')),
                opt(f('ity%d' % i), T('objType', 'VIDEO')),
                opt(f('in%d' % i), E('mosExternalMetadata', T('mosSchema', 'x'), E('mosPayload', E(
                    'studioCommands', E('studioCommand', T('text', 'untyped')),
                    E('studioCommand', T('text', 'other'), type='cmd'),
                    E('studioCommand', T('text', note_t), type='note'))))))
        body = [T('p', slug), it1]
        if has_item2:
            body.append(B.item('second'))
        body.append(T('p', None))
        st = STAMPS[P.get('ststamp', 1)] if P.get('started', [None] * N)[i] else None
        # replays / anchors: the numbers are spelt the ways a document can spell them
        sp = (lambda v, j: ['%d', '%d.0', '%de0', '+%d', ' %d ', '%d.'][(i + j) % 6] % v) if B.Ctx.replay else (lambda v, j: v)
        stories.append(E('story', T('storyID', ids[i]), opt(has_slug, T('storySlug', slug)),
                         timing(variants[i], sp(10 * i, 0), sp(3 * i, 1), sp(4 * i, 2), started=st), *body))
        spec.append({'id': ids[i], 'slug': slug if has_slug else None,
                     'items': [iid] + (['second'] if has_item2 else []),
                     'item1': {'slug': slug if f('isl%d' % i) else None, 'obj': obj if f('io%d' % i) else None,
                               'mos': 'mos.x' if f('im%d' % i) else None,
                               'type': 'VIDEO' if f('ity%d' % i) else None,
                               'note': note_t if f('in%d' % i) else None},
                     'duration': spec_duration(variants[i], 10 * i, 3 * i, 4 * i)})
    ed = P.get('edstart', 'present')
    ro = B.running_order(stories, lead=3 if ed != 'absent' else 2, edstart=STAMPS[P.get('edstamp', 0)] if ed == 'present' else None,
                         gap=P.get('gap'), trail=P.get('trail', 0))
    step = P.get('pre_op')
    if step == 'roreplace':
        B.prehist_replace(ro)      # same content, reached through RunningOrderReplace.merge
        step = None
    if step:
        new = E('story', T('storyID', A['n0']), opt(step.endswith('timed'), B.timing_block(dur=num(5))),
                T('p', slug), B.item(iid))
        if step.startswith('append'):
            msg = M.story_append([new])
            spec.append(new_spec(A['n0'], iid, 5 if step.endswith('timed') else None))
        elif step.startswith('insert'):
            msg = M.story_insert(ids[0], [new])
            spec.insert(0, new_spec(A['n0'], iid, 5 if step.endswith('timed') else None))
        elif step.startswith('replace'):
            msg = M.story_replace(ids[0], [new])
            spec[0] = new_spec(A['n0'], iid, 5 if step.endswith('timed') else None)
        elif step.startswith('send'):
            msg = M.story_send(ids[0], body=[T('p', slug), M.story_item(iid)],
                               pre=[B.timing_block(dur=num(5))] if step.endswith('timed') else [], slug=None)
            spec[0] = new_spec(ids[0], iid, 5 if step.endswith('timed') else None)
        elif step.startswith('eainsert'):
            msg = M.ea_story_insert(ids[0], [new])
            spec.insert(0, new_spec(A['n0'], iid, 5 if step.endswith('timed') else None))
        o = B.merge(ro, msg)
        if o.raised:
            B.note(sig='merge-raised-' + type(o.exc).__name__, observed=B.conc(o.exc), expected='merge succeeds')
            return False
    out = B.call(lambda: observe_all(ro))
    B.hit()
    if out.raised:
        import traceback
        B.note(sig='raised-' + type(out.exc).__name__, observed=B.conc(out.exc), expected='no exception',
               tb=''.join(traceback.format_exception(out.exc)[-3:]) if B.Ctx.replay else None)
        return False
    got = out.result
    sig = None
    if got['ro_id'] != 'RO' or got['ro_slug'] != 'slug' or got['message_id'] != 1 or got['completed'] is not False:
        sig = 'ro-identity'
    elif len(got['stories']) != len(spec):
        sig = 'story-count'
    else:
        for g, s in zip(got['stories'], spec):
            if not (g['id'] is s['id'] or g['id'] == s['id']):
                sig = 'story-id'
            elif not same(g['slug'], s['slug']):
                sig = 'story-slug'
            elif [x for x in g['items']] != s['items']:
                sig = 'item-ids'
            elif not same(g['duration'], s['duration']):
                sig = 'story-duration'
            elif 'item1' in s and any(not same(g['item1'][k], s['item1'][k]) for k in s['item1']):
                sig = 'item-field'
            elif g['start'] is not None and g['duration'] is not None and g['end_explicit'] is False and \
                    not same(g['end'], g['start'] + timedelta(seconds=g['duration'])):
                # start and duration are in the document (a zero duration is a duration): so is the end
                sig = 'story-end-differs-from-start-plus-duration'
            if sig:
                break
    if sig is None:
        ed_ = P.get('edstart', 'present')
        if not same(got['start'], STAMP_VALUES[P.get('edstamp', 0)] if ed_ == 'present' else None):
            sig = 'ro-start-differs-from-roEdStart'
        elif got['stories'] and not same(got['end'], got['stories'][-1]['end']):
            sig = 'ro-end-differs-from-last-story-end'
        else:
            for g, st_flag in zip(got['stories'], (P.get('started') or []) + [None] * 9):
                if st_flag and not step and not same(g['start'], STAMP_VALUES[P.get('ststamp', 1)]):
                    sig = 'story-start-differs-from-StoryStarted'
    if sig is None:
        all_have = all(s['duration'] is not None for s in spec)
        if all_have and not same(got['duration'], sum(s['duration'] for s in spec)):
            sig = 'ro-duration'
        if not all_have and got['duration'] is not None:
            sig = 'ro-duration-not-None'
        exp_body_len = sum(len(s['items']) + s.get('paras', 2) for s in spec)
        if len(got['body']) != exp_body_len:
            sig = 'ro-body-length'
    if B.Ctx.replay:
        B.note(sig=sig, observed=repr(got)[:1500], expected=repr(spec)[:1500])
    return sig is None


def new_spec(sid, iid, dur):
    return {'id': sid, 'slug': None, 'items': [iid], 'duration': dur, 'paras': 1}


def observe_all(ro):
    out = {'ro_id': ro.ro_id, 'ro_slug': ro.ro_slug, 'message_id': ro.message_id, 'completed': ro.completed,
           'duration': ro.duration, 'start': ro.start_time, 'end': ro.end_time, 'script': ro.script,
           'body': ro.body, 'stories': []}
    for s in ro.stories:
        items = s.items
        d = {'id': s.id, 'slug': s.slug, 'items': [i.id for i in items], 'duration': s.duration,
             'offset': s.offset, 'start': s.start_time, 'end': s.end_time, 'script': s.script,
             'body': s.body, 'xml': s.xml,
             'end_explicit': s.xml.find('mosExternalMetadata/mosPayload/StoryEnded') is not None}
        if items:
            i = items[0]
            d['item1'] = {'slug': i.slug, 'obj': i.object_id, 'mos': i.mos_id, 'type': i.type, 'note': i.note}
        out['stories'].append(d)
    return out


# ---------------------------------------------------------------------------------------
# C17
# ---------------------------------------------------------------------------------------

# concrete neighbours for the one symbolic paragraph of a cell
FIXED_PARAS = {'a': 'plain text', 'b': '(note)', 'w': '   ', 'h': '(half', 'u': ' \u00e9t\u00e9 ', 'g': '<gfx>',
               'r': 'right)', 'H': '<half', 'R': 'right>', 'e': 'AT&amp;T &lt;VT&gt; &para 4 &#38; \U0001F600', 'E': '&lt;VT&gt;'}


def spec_script(texts):
    out = []
    for t in texts:
        if t is None:
            continue
        s = t.strip()
        if len(s) == 0:
            continue
        if (s[0] == '(' and s[len(s) - 1] == ')') or (s[0] == '<' and s[len(s) - 1] == '>'):
            continue
        out.append(s)
    return out


def script_cell(P, A):
    """C17: body lists every paragraph (text or '') and every item in document order; script is the
    stripped non-empty non-technical paragraphs; the running order concatenates its stories.
    P['layout']: per story a string over {p: symbolic paragraph, n: paragraph with text None,
    i: item, o: other element}; paragraph texts are solver variables."""
    layouts = P['layout']
    texts = [A[k] for k in sorted(A) if k.startswith('q')]
    ti = 0
    stories, spec_body, spec_scr = [], [], []
    for si, lay in enumerate(layouts):
        body, sb, ptexts = [], [], []
        for j, ch in enumerate(lay):
            if ch == 'p':
                t = texts[ti]
                ti += 1
                body.append(T('p', t))
                sb.append(('p', t if t is not None else ''))
                ptexts.append(t)
            elif ch == 'n':
                body.append(T('p', None))
                sb.append(('p', ''))
                ptexts.append(None)
            elif ch in FIXED_PARAS:
                t = FIXED_PARAS[ch]
                body.append(T('p', t))
                sb.append(('p', t))
                ptexts.append(t)
            elif ch == 'i':
                iid = 'I%d%d' % (si, j) if not P.get('same_item_ids') else 'SAME'     # a sting cued twice
                body.append(B.item(iid))
                sb.append(('item', iid))
            else:
                body.append(E('mosExternalMetadata', T('mosSchema', 'x'), E('mosPayload', T('p', 'not a paragraph'))))
        stories.append((body, sb, spec_script(ptexts)))
    els = []
    via_send = P.get('send')
    sid_of = lambda si: {'dup': 'S', 'blank': None}.get(P.get('story_ids'), 'S%d' % si)   # story IDs may repeat / be blank
    for si, (body, sb, scr) in enumerate(stories):
        if via_send is not None and si == via_send:
            els.append(B.story(sid_of(si), slug='s', body=[T('p', 'old')]))
        else:
            els.append(B.story(sid_of(si), slug='s', body=body))
    ro = B.running_order(els, lead=2)
    if via_send is not None:
        body = stories[via_send][0]
        for b in body:
            if b.tag == 'item':
                b.tag = 'storyItem'
        o = B.merge(ro, M.story_send(sid_of(via_send), body=body, pre=[]))
        if o.raised:
            B.note(sig='send-raised-' + type(o.exc).__name__, observed=B.conc(o.exc))
            return False
    out = B.call(lambda: observe_script(ro))
    B.hit()
    if out.raised:
        B.note(sig='raised-' + type(out.exc).__name__, observed=B.conc(out.exc), expected='no exception')
        return False
    got = out.result
    sig = None
    all_b, all_s = [], []
    for si, (body, sb, scr) in enumerate(stories):
        if si >= len(got['stories']):
            sig = 'story-count'
            break
        g = got['stories'][si]
        if g['script'] != scr:
            sig = 'story-script'
            break
        if g['body'] != sb:
            sig = 'story-body'
            break
        all_b += sb
        all_s += scr
    if sig is None and got['script'] != all_s:
        sig = 'ro-script'
    if sig is None and got['body'] != all_b:
        sig = 'ro-body'
    if B.Ctx.replay:
        B.note(sig=sig, observed=repr(got), expected=repr({'script': all_s, 'body': all_b}))
    return sig is None


def body_repr(b):
    return [('item', x.id) if isinstance(x, Item) else ('p', x) for x in b]


def observe_script(ro):
    return {'script': ro.script, 'body': body_repr(ro.body),
            'stories': [{'script': s.script, 'body': body_repr(s.body)} for s in ro.stories]}
