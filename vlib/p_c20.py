"""C20 - message objects expose exactly the targets and sources the message names."""
from .cells import Cell, distinct, str_pre
from .h_msgacc import TABLE
from .h_order import OPS

PID = 'C20'
ASSUMPTIONS = [
    'IDs and carried contents are solver variables; targets are present / blank / absent (where the schema allows); '
    '1..3 sources; compact trees and trees indented like pretty-printed files (whitespace text and tails)',
    'print recorder (stub S5): inspect() output is the list of printed objects; "mentions every source" is decided on '
    'those objects (replay: on the captured stdout text); exact formatting of inspect() is outside',
]


def bounds(tier):
    return {'message_types': len(TABLE) + 5, 'sources_k': '1..3', 'target_kinds': ['present', 'blank', 'absent'],
            'layouts': ['compact', 'indented']}


ABSENT_OK = ('roStoryMove', 'EAStoryMove', 'EAStoryInsert')
TWO = ('EAStorySwap', 'EAItemSwap')
ONE = ('roStoryMove', 'roStorySend')


def mk(op, k, tk, pretty, T=60, repeats=False, long_body=False, post_merge=False, carried_timing=None, empty_body=False):
    level, has_t, has_src, has_new = OPS[op]
    P = {'op': op, 'k': k, 'tk': tk, 'pretty': pretty, 'long_body': long_body, 'post_merge': post_merge, 'carried_timing': carried_timing, 'empty_body': empty_body}
    sym = [('u%d' % j, 'str') for j in range(k)]
    strs = [n for n, _ in sym]
    free = []
    if repeats:
        # listed IDs may repeat (the solver decides): the accessor must still list every mention, in order
        free, strs = strs, []
    if has_t and tk == 'present':
        sym.append(('t', 'str'))
        strs.append('t')
    if level == 'item':
        sym.append(('p0', 'str'))
        strs.append('p0')
    sym += [('c0', 'str'), ('c1', 'str')]
    pre = str_pre(strs + free + ['c0', 'c1']) + distinct(strs)
    cid = 'C20/%s/k%d%s/%s%s' % (op, k, ('/t-' + tk) if has_t else '', 'indented' if pretty else 'compact',
                                 '/ids-may-repeat' if repeats else '') + ('/long-body' if long_body else '') + \
        ('/after-merge-and-edits' if post_merge else '') + ('/carried-timing-' + carried_timing if carried_timing else '') + ('/empty-storyBody' if empty_body else '')
    return Cell(pid=PID, cid=cid, harness='h_msgacc:msgacc_cell', params=P, sym=sym, pre=pre, stubs=('hash',),
                timeout=T, cost=k)


def cells(tier):
    T = 60 if tier == 'quick' else 600
    out = []
    for op in TABLE:
        level, has_t, has_src, has_new = OPS[op]
        ks = (1,) if op in ONE else (2,) if op in TWO else (1, 2, 3)
        if op == 'roItemMoveMultiple':
            ks = (0,) + ks          # a single itemID is the reference item: nothing is moved
        tks = ['present', 'blank'] + (['absent'] if op in ABSENT_OK else []) if has_t else [None]
        for k in ks:
            for tk in tks:
                for pretty in (False, True):
                    if tier == 'quick' and pretty and (k == 2 and op not in TWO):
                        continue
                    out.append(mk(op, k, tk, pretty, T=T))
    for op in TABLE:
        if TABLE[op][3] == 'ids' and op not in ONE:
            level, has_t, has_src, has_new = OPS[op]
            out.append(mk(op, 2 if op in TWO else 3, 'present' if has_t else None, False, T=T, repeats=True))
    # carried stories whose timing metadata is absent, blank or free text
    for op in ('roStoryAppend', 'roStoryInsert', 'roStoryReplace', 'EAStoryInsert', 'EAStoryReplace'):
        for ct in ('none', 'blank', 'odd'):
            out.append(mk(op, 2, 'present' if OPS[op][1] else None, False, T=T, carried_timing=ct))
    out.append(mk('roStorySend', 1, None, False, T=T, empty_body=True))
    out.append(mk('roStorySend', 1, None, True, T=T, empty_body=True))
    out.append(mk('roStorySend', 1, None, False, T=T, long_body=True))
    out.append(mk('roStorySend', 1, None, True, T=T, long_body=True))
    out.append(mk('roStorySend', 1, None, False, T=T, long_body=True, post_merge=True))
    for op in ('roMetadataReplace', 'roReplace', 'roDelete', 'roReadyToAir', 'roCreate'):
        for pretty in (False, True):
            sym = [('u0', 'str'), ('u1', 'str'), ('c0', 'str'), ('r0', 'str')]
            pre = str_pre(['u0', 'u1', 'c0', 'r0']) + ['u0 != u1']
            out.append(Cell(pid=PID, cid='C20/%s/%s' % (op, 'indented' if pretty else 'compact'),
                            harness='h_msgacc:other_cell', params={'op': op, 'pretty': pretty}, sym=sym, pre=pre,
                            stubs=('hash',), timeout=T, cost=1))
            if op in ('roReplace', 'roCreate') and not pretty:
                out.append(Cell(pid=PID, cid='C20/%s/compact/first-story-untimed' % op,
                                harness='h_msgacc:other_cell', params={'op': op, 'pretty': pretty, 'untimed_first': True},
                                sym=sym, pre=pre, stubs=('hash',), timeout=T, cost=1))
    return out
