"""C14 - every reachable running order serialises to XML that reads back identically."""
import mosromgr.mostypes as mt

from . import build as B
from . import msgs as M
from .build import E, T
from .h_merge import envelope_ok

STEPS = ('none', 'roStoryInsert', 'roStoryReplace', 'roStorySend', 'roItemInsert', 'roItemReplace', 'roMetadataReplace',
         'roReplace', 'roDelete', 'EAStoryInsert', 'EAItemInsert', 'roStoryAppend', 'EAStorySwap', 'roStoryMove')


def esc_text(t):
    out = ''
    for ch in t:
        if ch == '&':
            out += '&amp;'
        elif ch == '<':
            out += '&lt;'
        elif ch == '>':
            out += '&gt;'
        else:
            out += ch
    return out


def esc_attr(t):
    out = ''
    for ch in t:
        if ch == '&':
            out += '&amp;'
        elif ch == '<':
            out += '&lt;'
        elif ch == '>':
            out += '&gt;'
        elif ch == '"':
            out += '&quot;'
        elif ch == '\n':
            out += '&#10;'
        elif ch == '\t':
            out += '&#09;'
        elif ch == '\r':
            out += '&#13;'
        else:
            out += ch
    return out


def ser(el):
    """Reference serialiser (the format ElementTree.tostring(encoding='unicode') produces)."""
    s = '<' + el.tag
    for k, v in el.attrib.items():
        s += ' ' + k + '="' + esc_attr(v) + '"'
    if not el.text and len(el) == 0:
        s += ' />'
    else:
        s += '>'
        if el.text:
            s += esc_text(el.text)
        for c in el:
            s += ser(c)
        s += '</' + el.tag + '>'
    if el.tail:
        s += esc_text(el.tail)
    return s


def step_message(step, c0, c1):
    rich = lambda sid: E('story', T('storyID', sid), T('storySlug', c0), E('p', E('b', text=c1, tail=c0), text=c0),
                         E('item', T('itemID', 'ni'), T('itemSlug', c1), k=c1))
    it = lambda iid: E('item', T('itemID', iid), T('itemSlug', c0), E('x', text=c1, k=c0))
    return {
        'roStoryInsert': lambda: M.story_insert('S1', [rich('N1')]),
        'roStoryReplace': lambda: M.story_replace('S0', [rich('N1'), rich('N2')]),
        'roStoryAppend': lambda: M.story_append([rich('N1')]),
        'roStorySend': lambda: M.story_send('S1', body=[E('p', text=c0, tail=c1), M.story_item('si', slug=c1)], slug=c0),
        'roItemInsert': lambda: M.item_insert('S0', None, [it('N1')]),
        'roItemReplace': lambda: M.item_replace('S0', 'I0', [it('N1')]),
        'EAStoryInsert': lambda: M.ea_story_insert(None, [rich('N1')]),
        'EAItemInsert': lambda: M.ea_item_insert('S1', 'I1', [it('N1')]),
        'EAStorySwap': lambda: M.ea_story_swap('S1', 'S0'),
        'roStoryMove': lambda: M.story_move('S0', None),
        'roMetadataReplace': lambda: M.metadata_replace([T('roSlug', c0), E('mosExternalMetadata', T('mosSchema', c1),
                                                                          E('mosPayload', E('Owner', text=c0, k=c1)))]),
        'roReplace': lambda: M.ro_replace([T('roSlug', c1), rich('N1'), rich('S1')]),
        'roDelete': lambda: M.ro_delete(),
    }[step]()


def roundtrip_cell(P, A):
    c0, c1 = A['c0'], A['c1']
    if P.get('tree') == 'mini':
        root = E('mos', T('messageID', '1'), E('roCreate', T('roID', 'RO'), T('roSlug', c0),
                                               E('story', T('storyID', 'S0'), E('p', text='x', k=c1))))
        ro = B.wrap(root, mt.RunningOrder)
    else:
        stories = [E('story', T('storyID', 'S%d' % i), T('storySlug', c0 if i == 0 else 'plain'),
                     B.timing_block(dur='10'), E('p', text=c1 if i == 1 else 'x'),
                     E('item', T('itemID', 'I%d' % i), T('itemSlug', 'is'), k=c1 if i == 0 else 'v'))
                   for i in range(2)]
        if P.get('tree') == 'ids':
            # a third story whose storyID and itemID are the free texts (they may be whitespace)
            stories.append(E('story', T('storyID', c0), E('item', T('itemID', c1), T('itemSlug', 'w'))))
        ro = B.running_order(stories, lead=3, trail=1)
    mid = ro.xml.find('messageID').text
    sig = None
    for step in P['steps']:
        if step == 'none':
            continue
        B.Ctx.envelope_layout = P.get('msg_envelope')
        try:
            m = step_message(step, c0, c1)
        finally:
            B.Ctx.envelope_layout = None
        o = B.merge(ro, m)
        if o.raised:
            B.note(sig='step-%s-raised-%s' % (step, type(o.exc).__name__), observed=B.conc(o.exc))
            return False
    out = B.call(lambda: str(ro))
    B.hit()
    if out.raised:
        sig = 'str-raised-' + type(out.exc).__name__
    else:
        s = out.result
        sig = envelope_ok(ro, mid, 'RO')
        if sig is None:
            # the object and the document it serialises must be the same thing: accessors read what str() writes
            acc = B.call(lambda: ([x.id for x in ro.stories], [[i.id for i in x.items] for x in ro.stories],
                                  ro.ro_slug, ro.ro_id, ro.message_id))
            rc = ro.xml.find('roCreate')
            if acc.raised:
                sig = 'accessor-raised-' + type(acc.exc).__name__
            elif acc.result[0] != [x.find('storyID').text for x in rc.findall('story')]:
                sig = 'stories-differ-from-serialised-document'
            elif acc.result[1] != [[i.find('itemID').text for i in x.findall('item')] for x in rc.findall('story')]:
                sig = 'items-differ-from-serialised-document'
            elif acc.result[2] != rc.find('roSlug').text or acc.result[3] != 'RO' or acc.result[4] != 1:
                sig = 'identity-differs-from-serialised-document'
        if sig is None and B.Ctx.replay:
            # the real criterion: well-formed, reads back to an identical running order
            B.Ctx.docs.append(s)
            rb = B.call(lambda: mt.MosFile.from_string(s))
            if rb.raised:
                sig = 'not-well-formed-' + type(rb.exc).__name__
            else:
                ro2 = rb.result
                if type(ro2).__name__ != 'RunningOrder':
                    sig = 'reads-back-as-' + type(ro2).__name__
                elif str(ro2) != s:
                    sig = 'serialisation-not-idempotent'
                elif B.snap(ro2.xml) != B.snap(ro.xml):
                    sig = 'content-differs-after-read-back'
                elif ro2.completed != ro.completed:
                    sig = 'completed-flag-differs'
                elif [(x.id, [i.id for i in x.items]) for x in ro2.stories] != [(x.id, [i.id for i in x.items]) for x in ro.stories]:
                    sig = 'stories-items-differ'
                elif ro2.message_id != 1 or ro2.ro_id != 'RO':
                    sig = 'ids-differ'
            B.note(observed=s[:700], expected='reads back identically')
        elif sig is None:
            # symbolic mode: equality with the reference serialisation (sufficient for read-back under
            # the stdlib parse contract); a format change that still reads back is sorted out by the replay
            ref = ser(ro.xml)
            if P.get('cmp', 'length') == 'equal':
                if s != ref:
                    sig = 'serialisation-differs-from-reference'
            elif len(s) != len(ref):
                # whole-string equality over hundreds of pieces overwhelms the string solver; the length
                # (linear arithmetic over the escape decisions) still exposes a missing or extra escape
                sig = 'serialisation-length-differs-from-reference'
    if B.Ctx.replay:
        B.note(sig=sig)
    return sig is None
