"""C09 - collection merge equals adding the messages one by one; strict / non-strict hold."""
from .cells import Cell, distinct, str_pre

PID = 'C09'
ASSUMPTIONS = [
    'parser stub S4: documents are handles mapped to fresh trees built from templates with the registered '
    'symbolic values (parsing the same content twice yields equal, unshared trees); the real parser runs in '
    'replays and anchors.  S3 stub S6: fake paginator / object store',
    'which messages fail is decided by the solver (each reference is an existing or an unknown story ID by a '
    'symbolic flag); message IDs are symbolic digit strings, so numeric ordering is decided symbolically',
    'the specification is a hand fold ro += fresh(msg) over the same real merge code in ascending numeric ID order',
]
PAIRS = [('roStoryMove', 'roStoryDelete'), ('roStoryReplace', 'roDelete'), ('roDelete', 'roStoryInsert'),
         ('roItemInsert', 'EAStorySwap'), ('roStorySend', 'roMetadataReplace'), ('roStoryAppend', 'EAStoryMove'),
         ('roItemDelete', 'roStoryReplace'), ('roReadyToAir', 'roStoryMove')]
TRIPLES = [('roStoryMove', 'roDelete', 'roStoryAppend'), ('roStoryReplace', 'roItemInsert', 'roStoryDelete'),
           ('roStoryInsert', 'roStorySend', 'roDelete'), ('EAStorySwap', 'roStoryMove', 'roItemDelete')]


def bounds(tier):
    return {'messages_per_history': '2..3' if tier == 'quick' else '2..4', 'stories': 3,
            'message_ids': 'concrete, mixed widths (20, 3, 100, 7) - symbolic digit strings in C10', 'constructors': ['from_strings', 'from_files', 'from_s3'],
            'modes': ['strict', 'non-strict']}


def digits(v, w):
    # fixed width, no leading zero: int() of it is linear arithmetic over the code points, and for
    # equal widths string inequality is integer inequality (different widths differ anyway)
    return ['len(%s) == %d' % (v, w), '49 <= ord(%s[0]) <= 57' % v] + \
           ['48 <= ord(%s[%d]) <= 57' % (v, i) for i in range(1, w)]


def mk(pid, kinds, strict, source='string', perm=None, widths=None, T=60, sym_ids=False, sort_objects=False, tag='',
       mids=None, may_fail=True, rc_mid=None, sym_rc=None, rc_completed=False, merge_twice=False, ncs_ids=None,
       same_basename=False, idlen=1, refs=None, readback=False, decl=None, judge=None):
    """sym_ids: message IDs are symbolic digit strings of the given widths (used where no message fails:
    a failing merge formats its message ID into the error text, which realises the integer and turns
    one path into one path per value); otherwise they are the concrete ``mids``."""
    k = len(kinds)
    P = {'kinds': list(kinds), 'strict': strict, 'source': source, 'perm': perm, 'sort_objects': sort_objects,
         'may_fail': may_fail}
    sym = [('s0', 'str'), ('s1', 'str'), ('s2', 'str'), ('x', 'str')]
    strs = ['s0', 's1', 's2', 'x']
    pre = []
    widths = widths or ([2, 1, 3, 1][:k])
    ex = {'s0': 'a', 's1': 'b', 's2': 'c', 'x': 'z'}
    if not sym_ids:
        P['mids'] = mids or ['20', '3', '100', '7'][:k]
    if rc_mid:
        P['rc_mid'] = rc_mid
    P['ncs_ids'] = ncs_ids
    P['readback'] = readback
    if judge:
        P['judge'] = judge
    if decl:
        P['decl'] = decl
        tag = (tag + '-' if tag else '') + 'strings-declare-' + decl
    if refs:
        P['refs'] = refs
    P['same_basename'] = same_basename
    P['rc_completed'] = rc_completed
    P['merge_twice'] = merge_twice
    if sym_rc:
        sym.append(('m_rc', 'str'))
        pre += digits('m_rc', sym_rc)
        ex['m_rc'] = '5' + '0' * (sym_rc - 1)
    for j in range(k):
        if sym_ids:
            sym.append(('m%d' % j, 'str'))
            pre += digits('m%d' % j, widths[j])
            ex['m%d' % j] = str([2, 3, 1, 7][j]) + '0' * (widths[j] - 1)
        if may_fail:
            sym.append(('f%d' % j, 'bool'))
            ex['f%d' % j] = (j == 1)
        if kinds[j] in ('roStoryReplace', 'roStoryInsert', 'roStoryAppend', 'roItemInsert'):
            sym.append(('n%d' % j, 'str'))
            strs.append('n%d' % j)
            ex['n%d' % j] = 'pqrs'[j]
    if sym_ids:
        for a in range(k):
            for b in range(a + 1, k):
                if widths[a] == widths[b]:
                    pre.append('m%d != m%d' % (a, b))
            if sym_rc and widths[a] == sym_rc:
                pre.append('m%d != m_rc' % a)
    pre = str_pre(strs, idlen) + distinct(strs) + pre
    kinds_s = '+'.join(kinds) if k <= 4 else '+'.join('%dx%s' % (list(kinds).count(x), x) for x in dict.fromkeys(kinds))
    cid = '%s/%s/%s/%s' % (pid, kinds_s or 'no-messages', 'strict' if strict else 'non-strict', source)
    if idlen != 1:
        cid += '/padded-or-prefix-ids'
    if perm and len(perm) <= 6:
        cid += '/perm-' + ''.join(map(str, perm))
    cid += ('/symids-' + ''.join(map(str, widths))) if sym_ids else ('/ids-' + '-'.join(P['mids'][:4]) + ('-etc' if k > 4 else ''))
    if rc_mid:
        cid += '/roCreate-id-' + rc_mid
    if sym_rc:
        cid += '/roCreate-symid-%d' % sym_rc
    if ncs_ids:
        cid += '/ncs-' + '-'.join(ncs_ids)
    if same_basename:
        cid += '/same-basename'
    if rc_completed:
        cid += '/roCreate-already-completed'
    if merge_twice:
        cid += '/merge-twice'
    if tag:
        cid += '/' + tag
    return Cell(pid=pid, cid=cid, harness='h_collect:collection_cell', params=P, sym=sym, pre=pre,
                stubs=('hash',), timeout=T, cost=(2 ** k) * (k + 1), example=ex)


ALL_KINDS = ['roStoryDelete', 'roStoryMove', 'roStoryReplace', 'roStoryInsert', 'roStoryAppend', 'roItemInsert',
             'roItemDelete', 'EAStorySwap', 'EAStoryMove', 'roStorySend', 'roReadyToAir', 'roMetadataReplace', 'roReplace',
             'roDelete']
QUADS = [('roStoryMove', 'roStoryReplace', 'roDelete', 'roStoryAppend'),
         ('roItemInsert', 'roStoryDelete', 'EAStorySwap', 'roStorySend')]


def cells(tier):
    T = 90 if tier == 'quick' else 600
    out = []
    for pair in PAIRS:
        for strict in (True, False):
            for src in ('string', 'file', 's3'):
                out.append(mk(PID, pair, strict, src, T=T))
            out.append(mk(PID, pair, strict, 'string', T=T, perm=[2, 1, 0], mids=['3', '20']))
    for tr in TRIPLES:
        for strict in (True, False):
            out.append(mk(PID, tr, strict, 'string', T=T))
            out.append(mk(PID, tr, strict, 'file', T=T, perm=[3, 1, 0, 2], mids=['100', '20', '3']))
    # the smallest collections: a roCreate on its own, a roCreate and one message (that may fail)
    for strict in (True, False):
        for src in ('string', 'file', 's3'):
            out.append(mk(PID, (), strict, src, T=T, tag='roCreate-only'))
        out.append(mk(PID, (), strict, 'string', T=T, tag='roCreate-only', merge_twice=True))
        for kind in ('roStoryMove', 'roDelete', 'roStorySend'):
            out.append(mk(PID, (kind,), strict, 'string', T=T, tag='one-message'))
    # a message may carry the same messageID as the roCreate (IDs are not guaranteed unique): it is still merged
    for pair in (('roStoryAppend', 'roStoryMove'), ('roStoryDelete', 'roDelete')):
        for strict in (True, False):
            out.append(mk(PID, pair, strict, 'string', T=T, mids=['1', '20'], tag='same-id-as-roCreate'))
            out.append(mk(PID, pair, strict, 'file', T=T, mids=['20', '1'], perm=[1, 2, 0], tag='same-id-as-roCreate'))
    # the roCreate need not carry the lowest message ID (counter reset, late roCreate)
    for tr in (('roStoryAppend', 'roStoryMove', 'roDelete'), ('roStoryDelete', 'roStoryInsert', 'roStorySend')):
        for strict in (True, False):
            out.append(mk(PID, tr, strict, 'string', T=T, mids=['20', '3', '100'], rc_mid='50'))
            out.append(mk(PID, tr, strict, 's3', T=T, mids=['100', '20', '3'], rc_mid='21', perm=[2, 0, 3, 1]))
    # a collection whose roCreate is already completed (saved output used again): every message fails; and a
    # second merge() call on the same collection
    for pair in (('roStoryMove', 'roStoryDelete'), ('roStoryAppend', 'roDelete')):
        for strict in (True, False):
            out.append(mk(PID, pair, strict, 'string', T=T, rc_completed=True))
            out.append(mk(PID, pair, strict, 'file', T=T, merge_twice=True))
    out.append(mk(PID, ('roItemInsert', 'roStorySend', 'roStoryReplace'), False, 's3', T=T, rc_completed=True))
    # an "unknown" ID of two characters may be an existing one-character ID padded with a space or extended: whatever
    # the library makes of it, the collection and the one-by-one addition agree
    for pair in (('roStoryMove', 'roStoryDelete'), ('roItemInsert', 'roStoryReplace'), ('roStorySend', 'roItemDelete')):
        for strict in (True, False):
            out.append(mk(PID, pair, strict, 'string', T=T, idlen='1-2'))
    out.append(mk(PID, ('roStoryMove', 'roStoryInsert'), False, 'file', T=T, idlen='1-2', perm=[2, 0, 1]))
    # roReplace among other messages
    for tr in (('roMetadataReplace', 'roReplace', 'roStoryAppend'), ('roStoryMove', 'roReplace', 'roDelete')):
        for strict in (True, False):
            out.append(mk(PID, tr, strict, 'string', T=T, mids=['9', '10', '100']))
            out.append(mk(PID, tr, strict, 's3', T=T, mids=['100', '10', '9'], perm=[2, 0, 3, 1]))
    # a message that names a story which only a LATER-numbered message brings in fails where it stands (it is not
    # retried, re-ordered or deferred); numbered the other way round it succeeds
    for strict in (True, False):
        out.append(mk(PID, ('roStoryInsert', 'roStoryAppend'), strict, 'string', T=T, mids=['5', '10'], refs=['n1', 0], may_fail=False,
                      tag='target-created-later'))
        out.append(mk(PID, ('roStoryMove', 'roStoryAppend', 'roStoryDelete'), strict, 'file', T=T, mids=['5', '10', '20'],
                      refs=['n1', 0, 'n1'], may_fail=False, perm=[2, 3, 0, 1], tag='target-created-later'))
        out.append(mk(PID, ('roStoryInsert', 'roStoryAppend'), strict, 'string', T=T, mids=['10', '5'], refs=['n1', 0], may_fail=False,
                      tag='target-created-earlier'))
    # strings that still carry the encoding declaration of the file they came from
    for decl in ('ISO-8859-1', 'UTF-16'):
        out.append(mk(PID, ('roStoryReplace', 'roMetadataReplace'), True, 'string', T=T, decl=decl))
        out.append(mk(PID, ('roStoryAppend', 'roDelete'), False, 'string', T=T, decl=decl))
    # every message type after the roDelete (each one is refused, in both modes; none is skipped)
    for kind in ALL_KINDS[:-1]:     # (a second roDelete makes the collection invalid: C11)
        for strict in (True, False):
            out.append(mk(PID, ('roDelete', kind), strict, 'string', T=T, mids=['3', '20'], tag='after-roDelete'))
    out.append(mk(PID, ('roDelete', 'roReadyToAir', 'roMetadataReplace'), False, 'file', T=T, mids=['3', '20', '100'],
                  perm=[3, 2, 1, 0], tag='after-roDelete'))
    # messages that share a message ID (re-transmissions): each failure is reported on its own
    for pair in PAIRS[:4]:
        for strict in (True, False):
            out.append(mk(PID, pair, strict, 'string', T=T, mids=['20', '20'], tag='same-message-id'))
    out.append(mk(PID, TRIPLES[1], False, 'string', T=T, mids=['7', '7', '7'], tag='same-message-id'))
    # message IDs beyond 2**53 and beyond 2**64 that differ in the last digit only (order-dependent pair: the
    # move and the delete name the same story)
    for a, b in (('9007199254740993', '9007199254740992'), ('18446744073709551617', '18446744073709551616')):
        for strict in (True, False):
            out.append(mk(PID, ('roStoryMove', 'roStoryDelete'), strict, 'string', T=T, mids=[a, b], refs=[0, 0],
                          tag='huge-ids'))
        out.append(mk(PID, ('roStoryDelete', 'roStoryMove'), False, 'file', T=T, mids=[a, b], refs=[1, 1], perm=[2, 0, 1],
                      tag='huge-ids'))
    # many messages (more than any internal batch size), supplied in descending and in interleaved order
    many = 70
    mm = [str(1000 - 3 * j) for j in range(many)]
    out.append(mk(PID, ('roMetadataReplace',) * many, True, 'string', T=T, mids=mm, may_fail=False, tag='70-messages-descending'))
    inter = [i for i in range(0, many + 1, 2)] + [i for i in range(1, many + 1, 2)]
    out.append(mk(PID, ('roMetadataReplace',) * many, False, 'file', T=T, mids=mm, may_fail=False, perm=inter,
                  tag='70-messages-interleaved'))
    # a failing message after a roReplace (strict: the collection holds the replaced running order; non-strict: it goes on)
    for tr in (('roReplace', 'roStoryMove'), ('roReplace', 'roStoryDelete', 'roStoryMove'), ('roStoryMove', 'roReplace', 'roStoryMove')):
        for strict in (True, False):
            out.append(mk(PID, tr, strict, 'string', T=T, mids=['9', '10', '100'][:len(tr)], tag='around-roReplace'))
    out.append(mk(PID, ('roDelete', 'roReplace'), True, 'file', T=T, mids=['9', '10'], perm=[2, 1, 0], tag='around-roReplace'))
    out.append(mk(PID, ('roDelete', 'roReplace'), False, 'string', T=T, mids=['9', '10'], tag='around-roReplace'))
    for q in QUADS if tier == 'thorough' else QUADS[:1]:
        for strict in (True, False):
            out.append(mk(PID, q, strict, 'string', T=2 * T))
    return out
