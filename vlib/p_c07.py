"""C07 - completion by roDelete is faithful, terminal and survives a round trip."""
from .cells import Cell, distinct, str_pre
from .h_complete import ALL_TYPES
from .h_order import OPS
from .p_c03 import icell

PID = 'C07'
ASSUMPTIONS = [
    'read-back is decided on a structure-preserving copy of the tree handed to the real classifier '
    '(stdlib serialise/parse contract); the literal str()/from_string() round trip runs in replays and anchors',
    'collection histories around roDelete (strict / non-strict) are decided by the C09 cells; the CLI '
    '"(completed)" marker by the C19 cells',
]


def bounds(tier):
    return {'message_types': len(ALL_TYPES), 'stories_N': 3, 'history': 'type m, roDelete, type m again (3 steps)'}


def cells(tier):
    T = 60 if tier == 'quick' else 600
    out = []
    N = 3 if tier == 'quick' else 4
    for op in ALL_TYPES + ('roCreate',):
        for first in (True, False):
            if op == 'roCreate' and first:
                continue
            P = {'op': op, 'N': N, 'first': first}
            sym = [('s%d' % i, 'str') for i in range(N)] + [('n0', 'str'), ('n1', 'str')]
            strs = [n for n, _ in sym]
            pre = []
            level = OPS[op][0] if op in OPS else 'story'
            if level == 'item':
                sym += [('p0', 'str'), ('p1', 'str')]
                pre += str_pre(['p0', 'p1']) + ['p0 != p1']
            if op in OPS:
                lvl, has_t, has_src, has_new = OPS[op]
                if has_src:
                    k = 2 if op.endswith('Swap') else 1
                    for j in range(k):
                        sym.append(('u%d' % j, 'int'))
                        pre.append('0 <= u%d < %d' % (j, N))
                    if k == 2:
                        pre.append('u0 != u1')
                if has_t:
                    sym.append(('t', 'int'))
                    pre.append('0 <= t < %d' % N)
                    if has_src:
                        pre.append('t != u0')
            pre = str_pre(strs) + distinct(strs) + pre
            out.append(Cell(pid=PID, cid='C07/%s/%s' % (op, 'm-roDelete-m' if first else 'roDelete-m'),
                            harness='h_complete:completion_cell', params=P, sym=sym, pre=pre, stubs=('hash',),
                            timeout=T, cost=3))
    for N_ in (1, 2, 3):
        out.append(icell(PID, 'roDelete', N=N_, T=T))
        out.append(icell(PID, 'roDelete', N=N_, T=T, gap=None, trail=0))
    out.append(icell(PID, 'roDelete', N=2, T=T, free_roid=True))
    # timed running orders: start and last end with / without zone designator, in every combination
    for ed, en in (('2022-03-04T12:29:45', '2022-03-04T13:00:00'), ('2022-03-04T12:29:45Z', '2022-03-04T13:00:00'),
                   ('2022-03-04T12:29:45', '2022-03-04T13:00:00+01:00'), ('2022-03-04T12:29:45+01:00', '2022-03-04T11:00:00Z'),
                   ('2022-03-04T12:29:45Z', None), (None, '2022-03-04T13:00:00Z')):
        out.append(icell(PID, 'roDelete', N=2, T=T, edstart=ed, last_ended=en))
    for tw in ('same', 'blank', 'free'):
        out.append(icell(PID, 'roDelete', N=2, T=T, twice=tw))
    # (e) collections: prefix, roDelete, suffix in strict and non-strict mode; mc.completed follows the running order
    from .p_c09 import mk as cmk
    for tr in (('roStoryMove', 'roDelete', 'roStoryAppend'), ('roDelete', 'roStoryInsert', 'roItemInsert'),
               ('roStorySend', 'roMetadataReplace', 'roDelete')):
        for strict in (True, False):
            out.append(cmk(PID, tr, strict, 'string', T=T, mids=['20', '30', '100']))
    out.append(cmk(PID, ('roStoryReplace', 'roDelete'), False, 'file', T=T, mids=['7', '30'], perm=[2, 1, 0]))
    # every message type after the roDelete, through a collection, in both modes (none is skipped or let through)
    from .p_c09 import ALL_KINDS
    for kind in ALL_KINDS[:-1]:
        for strict in (True, False):
            out.append(cmk(PID, ('roDelete', kind), strict, 'string', T=T, mids=['3', '20'], tag='after-roDelete'))
    # the roDelete shares its message ID with the roCreate / with an earlier message: it is still merged
    for strict in (True, False):
        out.append(cmk(PID, ('roStoryMove', 'roDelete'), strict, 'string', T=T, mids=['20', '1'], tag='roDelete-has-the-id-of-roCreate'))
        out.append(cmk(PID, ('roStoryMove', 'roDelete', 'roStoryAppend'), strict, 'string', T=T, mids=['20', '20', '30'],
                       tag='roDelete-repeats-an-id'))
    # a message that shares the roDelete's message ID and is listed after it stays after it
    for strict in (True, False):
        out.append(cmk(PID, ('roDelete', 'roStoryAppend'), strict, 'string', T=T, mids=['20', '20'], tag='same-id-as-roDelete-listed-after-it'))
        out.append(cmk(PID, ('roStoryAppend', 'roDelete', 'roStoryMove'), strict, 'file', T=T, mids=['20', '20', '20'],
                       tag='same-id-as-roDelete-listed-around-it'))
    # a collection built on an already completed running order stays completed and refuses everything
    for strict in (True, False):
        out.append(cmk(PID, ('roStoryMove', 'roMetadataReplace'), strict, 'string', T=T, rc_completed=True))
    return out
