"""Schema-shaped MOS messages built from (possibly symbolic) IDs.

A reference value is a ``str`` (present), ``None`` (tag present but blank, what the parser
yields for ``<storyID/>``) or ``ABSENT`` (tag missing, only where the schema makes it optional).
"""
from .build import E, T, message, item, story

class _Absent:
    def __repr__(self):
        return 'ABSENT'


ABSENT = _Absent()


def is_absent(v):
    return v is ABSENT


def tags(tag, vals):
    return [T(tag, v) for v in vals if not is_absent(v)]


# -- story level ----------------------------------------------------------------------------

def story_append(stories, **kw):
    return message('roStoryAppend', *stories, **kw)


def story_insert(tgt, stories, **kw):
    return message('roStoryInsert', *tags('storyID', [tgt]), *stories, **kw)


def story_replace(tgt, stories, **kw):
    return message('roStoryReplace', *tags('storyID', [tgt]), *stories, **kw)


def story_move(src, tgt, **kw):
    return message('roStoryMove', *tags('storyID', [src, tgt]), **kw)


def story_delete(ids, **kw):
    return message('roStoryDelete', *tags('storyID', ids), **kw)


def story_send(sid, body=(), slug='sent', pre=(), post=(), body_tag=True, **kw):
    """roStorySend: roID, storyID, storySlug, [pre...], storyBody(body...), [post...]"""
    kids = list(tags('storyID', [sid]))
    if slug is not None:
        kids.append(T('storySlug', slug))
    kids.extend(pre)
    if body_tag:
        kids.append(E('storyBody', *body))
    kids.extend(post)
    return message('roStorySend', *kids, **kw)


def story_item(item_id, **kw):
    it = item(item_id, **kw)
    it.tag = 'storyItem'
    return it


# -- item level -----------------------------------------------------------------------------

def item_delete(sid, iids, **kw):
    return message('roItemDelete', *tags('storyID', [sid]), *tags('itemID', iids), **kw)


def item_insert(sid, ref, items, **kw):
    return message('roItemInsert', *tags('storyID', [sid]), *tags('itemID', [ref]), *items, **kw)


def item_replace(sid, ref, items, **kw):
    return message('roItemReplace', *tags('storyID', [sid]), *tags('itemID', [ref]), *items, **kw)


def item_move_multiple(sid, srcs, ref, **kw):
    return message('roItemMoveMultiple', *tags('storyID', [sid]), *tags('itemID', list(srcs) + [ref]), **kw)


# -- roElementAction --------------------------------------------------------------------------

def ea(op, target, source, **kw):
    """target: list of elements, or ABSENT for no element_target; source: list of elements."""
    kids = []
    if not is_absent(target):
        kids.append(E('element_target', *target))
    if not is_absent(source):
        kids.append(E('element_source', *source))
    if op is not None:
        kw['operation'] = op
    return message('roElementAction', *kids, **kw)


def ea_target(sid, iid=ABSENT):
    if is_absent(sid) and is_absent(iid):
        return ABSENT
    return tags('storyID', [sid]) + tags('itemID', [iid])


def ea_story_replace(tgt, stories, **kw):
    return ea('REPLACE', ea_target(tgt), stories, **kw)


def ea_story_insert(tgt, stories, **kw):
    return ea('INSERT', ea_target(tgt), stories, **kw)


def ea_story_delete(ids, **kw):
    return ea('DELETE', ABSENT, tags('storyID', ids), **kw)


def ea_story_move(tgt, ids, **kw):
    return ea('MOVE', ea_target(tgt), tags('storyID', ids), **kw)


def ea_story_swap(a, b, tgt=ABSENT, **kw):
    return ea('SWAP', ea_target(tgt), tags('storyID', [a, b]), **kw)


def ea_item_replace(sid, ref, items, **kw):
    return ea('REPLACE', ea_target(sid, ref), items, **kw)


def ea_item_insert(sid, ref, items, **kw):
    return ea('INSERT', ea_target(sid, ref), items, **kw)


def ea_item_delete(sid, iids, **kw):
    return ea('DELETE', ea_target(sid), tags('itemID', iids), **kw)


def ea_item_move(sid, ref, iids, **kw):
    return ea('MOVE', ea_target(sid, ref), tags('itemID', iids), **kw)


def ea_item_swap(sid, a, b, **kw):
    return ea('SWAP', ea_target(sid), tags('itemID', [a, b]), **kw)


# -- others -------------------------------------------------------------------------------------

def ro_delete(**kw):
    return message('roDelete', **kw)


def ready_to_air(**kw):
    return message('roReadyToAir', T('roAir', 'READY'), **kw)


def metadata_replace(kids, **kw):
    return message('roMetadataReplace', *kids, **kw)


def ro_replace(kids, **kw):
    return message('roReplace', *kids, **kw)
