"""C13 - merging depends only on content; message objects stay independent."""
from .cells import Cell, distinct, str_pre
from .h_sharing import PAYLOAD_OPS

PID = 'C13'
ASSUMPTIONS = [
    'histories of 3-4 steps: merge a payload-carrying message, edit the running order with a later '
    'message that touches the carried content, re-use the same message object on a second running '
    'order next to a freshly built copy, edit the first running order again',
    '"share mutable content" is decided by object identity of ElementTree elements reachable from '
    'the message and from each running order',
]


def bounds(tier):
    return {'payload_types': list(PAYLOAD_OPS), 'history_steps': 4, 'stories': 2, 'items_per_story': 2,
            'id_length': 1}


STORY_EDITS = ('none', 'item-delete', 'item-insert', 'item-replace', 'ea-item-swap', 'story-send', 'story-delete',
               'metadata', 'ro-delete')
ITEM_EDITS = ('none', 'item-delete', 'item-replace', 'item-insert', 'story-send', 'ro-delete')


def cells(tier):
    T = 60 if tier == 'quick' else 600
    out = []
    for op in PAYLOAD_OPS:
        if op in ('roStoryAppend', 'roStoryInsert', 'roStoryReplace', 'EAStoryInsert', 'EAStoryReplace', 'roReplace',
                  'roStorySend', 'EAStoryInsert-end', 'roStoryInsert-last', 'roStoryInsert-dup', 'EAStoryInsert-dup'):
            edits = STORY_EDITS
        elif op in ('roReplace-skeleton', 'roStoryAppend-blank-id'):
            edits = ('none', 'item-delete', 'item-insert', 'metadata', 'ro-delete')
        elif op in ('EAStoryInsert-no-target', 'EAStoryMove-no-target', 'EAStorySwap'):
            edits = ('none', 'item-insert', 'metadata')
        elif op == 'roStoryReplace-skeleton':
            edits = ('none', 'item-insert', 'story-send', 'metadata')
        elif op == 'roMetadataReplace':
            edits = ('none', 'metadata', 'ro-delete', 'story-delete')
        elif op == 'roDelete':
            edits = ('none',)
        else:
            edits = ITEM_EDITS
        for edit in edits:
            sym = [('s0', 'str'), ('s1', 'str'), ('i0', 'str'), ('i1', 'str'), ('n0', 'str'), ('c0', 'str'), ('c1', 'str')]
            pre = str_pre([n for n, _ in sym]) + ['s0 != s1', 'i0 != i1', 'n0 != s0', 'n0 != s1', 'n0 != i0', 'n0 != i1']
            out.append(Cell(pid=PID, cid='C13/%s/then-%s' % (op, edit), harness='h_sharing:sharing_cell',
                            params={'op': op, 'edit': edit}, sym=sym, pre=pre, stubs=('hash',), timeout=T, cost=2))
    # two carried elements, the later edit touches the second one
    for op in ('roStoryAppend', 'roStoryInsert', 'roStoryReplace', 'EAStoryInsert', 'EAStoryReplace',
               'roItemInsert', 'roItemReplace', 'EAItemInsert', 'EAItemReplace'):
        for edit in (('item-delete', 'ea-item-swap', 'none') if 'Story' in op else ('item-delete', 'item-replace', 'none')):
            sym = [('s0', 'str'), ('s1', 'str'), ('i0', 'str'), ('i1', 'str'), ('n0', 'str'), ('n1', 'str'),
                   ('c0', 'str'), ('c1', 'str')]
            names = ['s0', 's1', 'i0', 'i1', 'n0', 'n1']
            pre = str_pre([n for n, _ in sym]) + ['s0 != s1', 'i0 != i1'] + \
                ['%s != %s' % (a, b) for a in ('n0', 'n1') for b in ('s0', 's1', 'i0', 'i1')] + ['n0 != n1']
            out.append(Cell(pid=PID, cid='C13/%s/two-carried/then-%s' % (op, edit), harness='h_sharing:sharing_cell',
                            params={'op': op, 'edit': edit}, sym=sym, pre=pre, stubs=('hash',), timeout=T, cost=2))
    return out
