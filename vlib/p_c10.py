"""C10 - merge result is independent of the order in which inputs are supplied."""
import itertools
from .p_c09 import mk

PID = 'C10'
ASSUMPTIONS = [
    'message IDs are symbolic digit STRINGS of fixed widths without leading zero (mixed widths 1/2/3 so that a '
    'lexical comparison differs from the numeric one); the supply order is a cell parameter (every permutation '
    'for 3 documents, a covering set for 4); none of the messages fails (a failing merge formats its ID into the '
    'error text, which realises the integer)',
    'parser stub S4 / S3 stub S6 as in C09; oracle: reader IDs ascending by integer value, merged snapshot equal to '
    'the numeric-order fold for every permutation, sorted(MosFile objects) ordered the same way',
]


def bounds(tier):
    return {'documents': '3..4', 'id_widths': [[1, 2], [2, 1], [2, 2], [1, 2, 3], [3, 1, 2]], 'permutations': 'all of 3, 6..8 of 4',
            'constructors': ['from_strings', 'from_files', 'from_s3']}


def cells(tier):
    T = 90 if tier == 'quick' else 600
    out = []
    pairs = [('roStoryAppend', 'roStoryInsert'), ('roStoryMove', 'roStoryDelete')]
    for pair in pairs:
        for perm in itertools.permutations(range(3)):
            for widths in ([1, 2], [2, 2]):
                out.append(mk(PID, pair, True, 'string', perm=list(perm), widths=widths, T=T, sym_ids=True,
                              may_fail=False, sort_objects=True))
    for src in ('file', 's3'):
        for perm in ([2, 1, 0], [1, 2, 0]):
            out.append(mk(PID, pairs[0], True, src, perm=perm, widths=[2, 1], T=T, sym_ids=True, may_fail=False,
                          sort_objects=True))
    tri = ('roStoryAppend', 'roStoryMove', 'roStoryInsert')
    perms4 = [[3, 2, 1, 0], [1, 0, 3, 2], [2, 3, 0, 1], [0, 2, 1, 3], [3, 0, 2, 1], [1, 3, 0, 2]]
    if tier == 'thorough':
        perms4 = [list(p) for p in itertools.permutations(range(4))]
    for perm in perms4:
        out.append(mk(PID, tri, False, 'string', perm=perm, widths=[1, 2, 3], T=T, sym_ids=True, may_fail=False,
                      sort_objects=True))
    # full 32-bit range: ten-digit IDs next to one-digit ones (a wrap-around comparison is refuted here)
    for perm in ([2, 1, 0], [0, 2, 1], [1, 0, 2]):
        out.append(mk(PID, pairs[0], True, 'string', perm=perm, widths=[10, 1], T=T, sym_ids=True, may_fail=False,
                      sort_objects=True))
    out.append(mk(PID, pairs[1], True, 'file', perm=[2, 0, 1], widths=[10, 10], T=T, sym_ids=True, may_fail=False))
    # the roCreate's own ID is symbolic too and need not be the lowest; a roDelete is sorted like everything else
    for perm in ([2, 0, 1], [1, 2, 0], [0, 1, 2]):
        out.append(mk(PID, pairs[0], True, 'string', perm=perm, widths=[1, 2], T=T, sym_ids=True, may_fail=False,
                      sort_objects=True, sym_rc=2))
        out.append(mk(PID, ('roStoryAppend', 'roDelete'), False, 'string', perm=perm, widths=[2, 1], T=T, sym_ids=True,
                      may_fail=False, sort_objects=True, sym_rc=1))
    out.append(mk(PID, ('roDelete', 'roStoryMove', 'roStoryAppend'), False, 'file', perm=[3, 0, 2, 1], widths=[1, 2, 3], T=T,
                  sym_ids=True, may_fail=False, sort_objects=True, sym_rc=2))
    # messages from different senders (ncsID), files sharing a base name, message IDs padded with whitespace
    for perm in ([2, 1, 0], [1, 0, 2]):
        out.append(mk(PID, pairs[0], True, 'string', perm=perm, widths=[1, 2], T=T, sym_ids=True, may_fail=False,
                      sort_objects=True, ncs_ids=['ZZ.MAIN', 'AA.BACKUP']))
        out.append(mk(PID, pairs[0], True, 'file', perm=perm, widths=[2, 1], T=T, sym_ids=True, may_fail=False,
                      same_basename=True))
        out.append(mk(PID, ('roStoryAppend', 'roStoryInsert', 'roStoryMove'), True, 'string', perm=perm + [3], T=T,
                      may_fail=False, sort_objects=True, mids=[' 20', '3 ', chr(10) + '100' + chr(10)], tag='padded-ids'))
        out.append(mk(PID, pairs[1], True, 'file', perm=perm, T=T, may_fail=False, mids=['+12', '7'], tag='signed-id',
                      same_basename=True))
    # IDs beyond 2**53 / 2**64 that differ in the last digit only; the two messages name the same story, so the
    # result depends on their order
    for a, b in (('9007199254740993', '9007199254740992'), ('18446744073709551617', '18446744073709551616')):
        for perm in ([0, 1, 2], [2, 1, 0], [1, 0, 2]):
            out.append(mk(PID, pairs[1], False, 'string', perm=perm, T=T, may_fail=False, mids=[a, b], refs=[0, 0],
                          sort_objects=True, tag='huge-ids'))
    # many documents (more than any internal batch size): descending, interleaved and rotated supply orders
    many = 70
    mm = [str(5 + 7 * j) for j in range(many)]
    for name, perm in (('descending', list(range(many, -1, -1))),
                       ('interleaved', list(range(0, many + 1, 2)) + list(range(1, many + 1, 2))),
                       ('rotated', list(range(40, many + 1)) + list(range(0, 40)))):
        out.append(mk(PID, ('roMetadataReplace',) * many, True, 'string' if name != 'rotated' else 's3', perm=perm, T=T,
                      may_fail=False, mids=mm, tag='70-messages-' + name))
    # a message naming a story that a later-numbered message brings in fails in every supply order
    for perm in ([0, 1, 2], [2, 1, 0], [1, 2, 0]):
        out.append(mk(PID, ('roStoryInsert', 'roStoryAppend'), False, 'string', perm=perm, T=T, mids=['5', '10'], refs=['n1', 0],
                      may_fail=False, tag='target-created-later'))
    # ... also when a roDelete or a failing message is numbered before it
    for perm in ([0, 1, 2], [2, 1, 0], [1, 2, 0]):
        out.append(mk(PID, ('roDelete', 'roReplace'), False, 'string', perm=perm, T=T, mids=['9', '10'], may_fail=False, tag='roDelete-before-roReplace'))
    out.append(mk(PID, ('roStoryMove', 'roReplace', 'roStoryAppend'), False, 'string', perm=[3, 2, 1, 0], T=T, mids=['9', '10', '100'],
                  tag='failing-message-before-roReplace'))
    # several versions of one story (roStorySend for the same storyID, different bodies): the highest-numbered wins in
    # every supply order, and every version is read
    for perm in itertools.permutations(range(3)):
        out.append(mk(PID, ('roStorySend', 'roStorySend'), True, 'string', perm=list(perm), T=T, mids=['9', '10'], refs=[0, 0],
                      may_fail=False, sort_objects=True, tag='versions-of-one-story'))
    for src, perm in (('file', [2, 1, 0]), ('s3', [2, 0, 1]), ('file', [0, 2, 1])):
        out.append(mk(PID, ('roStorySend', 'roStorySend'), True, src, perm=perm, T=T, mids=['10', '9'], refs=[1, 1],
                      may_fail=False, tag='versions-of-one-story'))
    for perm in ([3, 2, 1, 0], [2, 0, 3, 1], [0, 3, 1, 2], [1, 3, 2, 0]):
        out.append(mk(PID, ('roStorySend', 'roStoryDelete', 'roStorySend'), False, 'string', perm=perm, T=T, mids=['10', '9', '100'],
                      refs=[2, 0, 2], may_fail=False, sort_objects=True, tag='versions-of-one-story'))
    # a roReplace is ordered by its message ID like everything else
    for perm in ([3, 2, 1, 0], [1, 3, 0, 2], [0, 1, 2, 3]):
        out.append(mk(PID, ('roMetadataReplace', 'roReplace', 'roMetadataReplace'), True, 'string', perm=perm,
                      widths=[1, 2, 3], T=T, sym_ids=True, may_fail=False, sort_objects=True))
    out.append(mk(PID, ('roStoryAppend', 'roReplace'), True, 's3', perm=[2, 1, 0], widths=[1, 2], T=T, sym_ids=True,
                  may_fail=False))
    out.append(mk(PID, tri, True, 's3', perm=[3, 1, 2, 0], widths=[3, 1, 2], T=T, sym_ids=True, may_fail=False))
    out.append(mk(PID, tri, True, 'file', perm=[2, 3, 1, 0], widths=[2, 2, 2], T=T, sym_ids=True, may_fail=False))
    return out
