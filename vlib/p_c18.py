"""C18 - file, string, bytes and S3 sources are interchangeable; readers are faithful."""
from .cells import Cell, str_pre
from .h_collect import SOURCE_DOCS
from .p_c09 import mk as cmk, digits

PID = 'C18'
ASSUMPTIONS = [
    'S3 stub S6: a fake paginator yields an arbitrary bounded list of pages (with / without Contents, empty '
    'Contents) whose keys, the suffix and the prefix are solver variables; a fake object store returns the '
    'registered body.  Real boto3 behaviour is outside',
    'readers: parser stub S4 (handles -> fresh trees); message ID digits and running-order ID are solver variables',
    'file = bytes = str = S3 body: real temporary files and the real parser on 6 concrete documents (UTF-8 with and '
    'without declaration, ISO-8859-1, UTF-16 with BOM, UTF-8 with BOM, pretty-printed ASCII) selected by a '
    'solver-chosen index - enumeration by forking, stated as such',
    'collections from the three constructors over the same contents merge to the same result: decided by the C09/C10 '
    'cells (each constructor against the same fold)',
]


def bounds(tier):
    return {'pages': '<=4', 'keys': '<=4 of length 1..3', 'suffix_len': '1..2 (and the default .mos.xml)',
            'reader_kinds': ['roCreate', 'roStoryMove', 'roDelete', 'roStoryInsert'], 'source_documents': len(SOURCE_DOCS)}


def lcell(pages, prefix='sym', default_suffix=False, klen=3, T=60):
    nk = sum(int(p[1:]) for p in pages if p.startswith('c'))
    P = {'pages': list(pages), 'prefix': prefix, 'default_suffix': default_suffix}
    sym = [('k%d' % i, 'str') for i in range(nk)]
    # keys and suffix mix upper and lower case: matching is exact (S3 keys are case-sensitive)
    pre = ["re.fullmatch('[abAB./]{1,%d}', k%d)" % (klen, i) for i in range(nk)]
    ex = {'k%d' % i: ['a.B', 'b', 'A.b', '.B', 'a.b'][i % 5] for i in range(nk)}
    if default_suffix:
        P['suffix'] = '.mos.xml'
        pre = ["re.fullmatch('[a-c]?(%s)', k%d)" % (('[.]mos[.]xml|[.]MOS[.]xml|[.]xml', '[.]mos[.]xml|[.]xml|[.]mos[.]xmlx')[i % 2], i)
               for i in range(nk)]
        ex = {'k%d' % i: ['b.MOS.xml', 'c.mos.xmlx', 'a.mos.xml', '.mos.xml'][i % 4] for i in range(nk)}
    else:
        sym.append(('suf', 'str'))
        pre.append("re.fullmatch('[abAB./]{1,2}', suf)")
        ex['suf'] = '.B'
    if prefix == 'sym':
        sym.append(('pfx', 'str'))
        pre.append('len(pfx) <= 2')
        ex['pfx'] = 'p/'
    cid = 'C18/s3-listing/%s/prefix-%s%s' % ('+'.join(pages), prefix, '/default-suffix' if default_suffix else '')
    return Cell(pid=PID, cid=cid, harness='h_collect:s3_listing_cell', params=P, sym=sym, pre=pre, stubs=(),
                timeout=T, cost=nk * 5, example=ex)


def rcell(kind, source, width=2, T=60, key_name=None):
    P = {'kind': kind, 'source': source, 'key_name': key_name}
    sym = [('m0', 'str'), ('r0', 'str'), ('s0', 'str')]
    pre = digits('m0', width) + str_pre(['r0', 's0'])
    return Cell(pid=PID, cid='C18/reader/%s/%s/id-width%d%s' % (kind, source, width, '/awkward-key' if key_name else ''),
                harness='h_collect:reader_cell',
                params=P, sym=sym, pre=pre, stubs=('hash',), timeout=T, cost=2,
                example={'m0': '7' + '0' * (width - 1), 'r0': 'R', 's0': 'a'})


def cells(tier):
    T = 90 if tier == 'quick' else 600
    out = []
    for pages in (['c1'], ['c2'], ['c1', 'c1'], ['none', 'c1'], ['c1', 'none', 'c1'], ['empty', 'c2'], ['c2', 'empty', 'none', 'c1'],
                  ['none'], ['c1', 'c2'], ['none', 'none', 'c2']):
        out.append(lcell(pages, T=T, klen=3 if sum(int(p[1:]) for p in pages if p[0] == 'c') <= 2 else 2))
    out.append(lcell(['c1', 'none', 'c1'], prefix='none', T=T))
    out.append(lcell(['c2'], prefix='empty', T=T))
    out.append(lcell(['c1', 'none', 'c1'], default_suffix=True, prefix='empty', T=T))
    out.append(lcell(['c1'], default_suffix=True, prefix='none', T=T))
    if tier == 'thorough':
        out.append(lcell(['c2', 'c2'], T=T, klen=2))
        out.append(lcell(['c1', 'c1', 'c1', 'c1'], T=T, klen=2))
    for kind in ('roCreate', 'roStoryMove', 'roDelete', 'roStoryInsert'):
        for source in ('string', 'file', 's3'):
            out.append(rcell(kind, source, T=T))
    out.append(rcell('roStoryMove', 'string', width=3, T=T))
    out.append(rcell('roCreate', 's3', width=1, T=T))
    # S3 keys are opaque: characters that mean something in URLs are part of the name
    out.append(rcell('roStoryMove', 's3', T=T, key_name='prefix/News+Weather/100%25 done/a%2Fb+c.mos.xml'))
    out.append(rcell('roCreate', 's3', T=T, key_name='prefix/caf\u00e9 \u20ac/#1?.mos.xml'))
    # equal message IDs: the supplied order decides, for every constructor alike
    for src in ('string', 'file', 's3'):
        out.append(cmk(PID, ('roStoryAppend', 'roStoryAppend', 'roStoryMove'), True, src, T=T, mids=['20', '20', '30'],
                       perm=[0, 2, 1, 3], tag='equal-ids'))
    out.append(Cell(pid=PID, cid='C18/sources/file-bytes-str-s3', harness='h_collect:sources_cell', params={},
                    sym=[('i', 'int')], pre=['0 <= i < %d' % len(SOURCE_DOCS)], stubs=(), timeout=T, cost=3,
                    example={'i': 2}))
    out.append(Cell(pid=PID, cid='C18/s3/re-read-after-change', harness='h_collect:s3_reread_cell', params={},
                    sym=[('s0', 'str'), ('s1', 'str')], pre=str_pre(['s0', 's1']) + ['s0 != s1'], stubs=('hash',), timeout=T,
                    cost=2))
    # the three constructors over the same contents (shared with C09/C10): same fold for each source
    for src in ('string', 'file', 's3'):
        out.append(cmk(PID, ('roStoryAppend', 'roStoryMove', 'roDelete'), False, src, T=T, tag='three-constructors'))
    return out
