"""Solver-based checking of bbc/mosromgr: harnesses executed symbolically by CrossHair/z3.

See /verif/DESIGN.md.  Everything here drives the *real* code under /repo.
"""
