"""Command line: vcheck <property> [--tier quick|thorough] | --replay <file> | --replay-json -"""
import argparse
import json
import os
import sys


def main(argv=None):
    ap = argparse.ArgumentParser(prog='vcheck')
    ap.add_argument('pid', nargs='?')
    ap.add_argument('--tier', default=os.environ.get('VERIF_TIER') or 'quick', choices=['quick', 'thorough'])
    ap.add_argument('--replay')
    ap.add_argument('--replay-json')
    ap.add_argument('--only')
    ap.add_argument('--jobs', type=int)
    ap.add_argument('-v', '--verbose', action='store_true')
    ap.add_argument('--list', action='store_true')
    a = ap.parse_args(argv)
    from . import runner
    if a.replay_json:
        d = json.load(sys.stdin)
        cell = runner.cell_from_json(d['cell'])
        rep = runner.replay_inline(cell, d['args'])
        print('REPLAY-RESULT ' + json.dumps(rep, default=str))
        return 0
    if a.replay:
        d = json.load(open(a.replay))
        cell = runner.cell_from_json(d['cell'])
        rep = runner.replay_inline(cell, d['args'])
        print('cell      :', cell.cid)
        print('arguments :', d['args'])
        for i, doc in enumerate(rep['docs']):
            print('document %d: %s' % (i, doc))
        print('observed  :', rep['info'].get('observed'))
        print('expected  :', rep['info'].get('expected'))
        print('error     :', rep['error'])
        if rep['ok']:
            print('REPLAY: the property holds on this input with the current /repo')
            return 0
        print('VIOLATION property=%s replay=%s' % (d['property'], a.replay))
        return 1
    if not a.pid:
        ap.error('property id required')
    seed = int(os.environ.get('VERIF_SEED') or 0)
    if a.list:
        import importlib
        mod = importlib.import_module('vlib.p_' + a.pid.lower())
        for c in mod.cells(a.tier):
            print(c.cid, c.sym, c.pre)
        return 0
    strict = os.environ.get('VERIF_STRICT') == '1'
    return runner.run_property(a.pid, tier=a.tier, seed=seed, jobs=a.jobs, only=a.only,
                               verbose=a.verbose, strict=strict)


if __name__ == '__main__':
    sys.exit(main())
