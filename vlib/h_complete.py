"""C07 - completion by roDelete is faithful, terminal and survives a round trip."""
import copy

import mosromgr.mostypes as mt
from mosromgr.exc import MosCompletedMergeError

from . import build as B
from . import msgs as M
from .build import E, T
from .h_merge import rich_state
from .h_order import OPS, build_message, keys

OTHER = ('roMetadataReplace', 'roReplace', 'roDelete', 'roReadyToAir')
ALL_TYPES = tuple(OPS) + OTHER


def any_message(op, P, A, ids, addr, fresh_id):
    """A resolvable message of the given type."""
    if op in OPS:
        level, has_t, has_src, has_new = OPS[op]
        k = 2 if op.endswith('Swap') else 1
        us = [A['u%d' % j] for j in range(k)] if has_src else []
        t = A['t'] if has_t else None
        new = [fresh_id] if has_new else []
        return build_message({'op': op, 'timing': True}, ids, ids[t] if t is not None else None,
                             [ids[u] for u in us], new, addr=addr)
    if op == 'roMetadataReplace':
        return M.metadata_replace([T('roSlug', fresh_id)])
    if op == 'roReplace':
        return M.ro_replace([T('roSlug', fresh_id), B.story(fresh_id, slug='n', body=[T('p', 'x')])])
    if op == 'roDelete':
        return M.ro_delete()
    if op == 'roReadyToAir':
        return M.ready_to_air()
    if op == 'roCreate':
        # "any message of any type": another roCreate document (only ever added AFTER the roDelete here - before
        # it, a roCreate has no merge of its own)
        return B.running_order([B.story(fresh_id, slug='n', body=[T('p', 'x')])], msg_id='60')
    raise ValueError(op)


class _NotReadable:
    completed = None

    def __init__(self, exc):
        self.exc = exc


def reread(ro):
    out = B.call(lambda: _reread(ro))
    if out.raised:
        # the classifier / parser refused the serialised running order: reported by the callers as
        # "reads back as _NotReadable"
        return _NotReadable(out.exc)
    return out.result


def _reread(ro):
    """Write out and read back.  Symbolic mode: a structure-preserving copy of the tree handed to
    the classifier (stdlib round-trip contract); replay: the real str() + from_string()."""
    if B.Ctx.replay:
        text = str(ro)
        B.Ctx.docs.append(text)
        return mt.MosFile.from_string(text)
    return mt.MosFile._classify(copy.deepcopy(ro.xml))


def completion_cell(P, A):
    op = P['op']
    PP = dict(P)
    PP['op'] = op if op in OPS else 'roStoryDelete'
    ro, ids, addr, other = rich_state(PP, A)
    fresh = A['n0']
    sig = None
    # (c) a running order that never received a roDelete is never reported completed
    if ro.completed:
        sig = 'pristine-reported-completed'
    if sig is None and P.get('first', True):
        o = B.merge(ro, any_message(op, P, A, ids, addr, fresh))
        if o.raised:
            B.note(sig='resolvable-merge-raised-' + type(o.exc).__name__, observed=B.conc(o.exc))
            return False
        want = op == 'roDelete'
        if ro.completed != want:
            sig = 'completed-is-%s-after-%s' % (ro.completed, op)
        back = reread(ro)
        if sig is None and (type(back).__name__ != 'RunningOrder' or back.completed != want):
            sig = 'reread-%s-completed-%s' % (type(back).__name__, back.completed)
    # (a)+(b) after roDelete every message of every type is refused and changes nothing
    if sig is None:
        if not ro.completed:
            o = B.merge(ro, M.ro_delete(msg_id='50'))
            if o.raised or not ro.completed:
                sig = 'roDelete-did-not-complete'
        snap = B.snap(ro.xml)
        if sig is None:
            # references are resolved against the current state where possible
            rc = B.rc_of(ro)
            cur = keys('story', rc)
            msg = any_message(op, P, A, ids, addr, A['n1'])
            o = B.merge(ro, msg)
            if not (o.raised and type(o.exc) is MosCompletedMergeError):
                sig = 'merge-after-completion-%s' % (type(o.exc).__name__ if o.raised else 'accepted')
            elif B.snap(ro.xml) != snap:
                sig = 'changed-after-completion'
            elif not ro.completed:
                sig = 'completion-lost'
        if sig is None:
            back = reread(ro)
            if type(back).__name__ != 'RunningOrder' or not back.completed:
                sig = 'completed-reread-%s-completed-%s' % (type(back).__name__, back.completed)
            elif len(ro.xml.findall('mosromgrmeta')) != 1:
                sig = 'completion-records-%d' % len(ro.xml.findall('mosromgrmeta'))
            else:
                # "still completed" after the round trip: it refuses every message as well
                snap_b = B.snap(back.xml)
                o = B.merge(back, any_message(op, P, A, ids, addr, A['n1']))
                if B.Ctx.replay:
                    B.note(reread_type=type(back).__name__)
                if not (o.raised and type(o.exc) is MosCompletedMergeError):
                    sig = 'reread-accepts-merge-%s' % (type(o.exc).__name__ if o.raised else 'accepted')
                elif B.snap(back.xml) != snap_b:
                    sig = 'reread-changed-after-completion'
    B.hit()
    if B.Ctx.replay:
        B.note(sig=sig, observed=sig, expected='completion faithful and terminal')
    return sig is None
