"""Pre-histories shared by the harnesses: what happened to the running order before the message under test.

``failed_attempts`` is the history a non-strict collection merge (or a caller with try/except) produces: a
series of messages that were refused.  Each names a resolvable element first and an unresolvable one
after it, so that a refusal happens after the library has already looked something up.  By C05 the running
order is the same afterwards; whatever the library remembers of the attempt must not reach later merges."""
from . import build as B
from . import msgs as M
from .build import T

UNKNOWN = 'zz-unknown'


def failed_attempts(ro, addr=None, level=None):
    """Attempt refused messages of every type on ``ro``.  Returns the outcomes (not judged here)."""
    rc = B.rc_of(ro)
    stories = rc.findall('story')
    sids = [s.find('storyID').text for s in stories]
    first, last = (sids[0], sids[-1]) if sids else (UNKNOWN, UNKNOWN)
    new_story = lambda: B.story('zz-new', slug='n', body=[T('p', 'x')])
    new_item = lambda: B.item('zz-new-item', slug='n')
    msgs = []
    if level in (None, 'story'):
        msgs += [
            lambda: M.ea_story_move(first, [last, UNKNOWN]),
            lambda: M.story_move(UNKNOWN, first),
            lambda: M.story_move(last, UNKNOWN),
            lambda: M.ea_story_swap(last, UNKNOWN),
            lambda: M.story_insert(UNKNOWN, [new_story()]),
            lambda: M.story_replace(UNKNOWN, [new_story()]),
            lambda: M.ea_story_insert(UNKNOWN, [new_story()]),
            lambda: M.ea_story_replace(UNKNOWN, [new_story()]),
        ]
    if level in (None, 'item'):
        story = None
        for s in stories:
            if addr is None or s.find('storyID').text is addr or s.find('storyID').text == addr:
                story = s
                break
        if story is not None:
            sid = story.find('storyID').text
            iids = [i.find('itemID').text for i in story.findall('item')]
            fi, li = (iids[0], iids[-1]) if iids else (UNKNOWN, UNKNOWN)
            msgs += [
                lambda: M.ea_item_move(sid, fi, [li, UNKNOWN]),
                lambda: M.item_move_multiple(sid, [li, UNKNOWN], fi),
                lambda: M.ea_item_swap(sid, li, UNKNOWN),
                lambda: M.item_insert(sid, UNKNOWN, [new_item()]),
                lambda: M.item_replace(sid, UNKNOWN, [new_item()]),
                lambda: M.ea_item_insert(sid, UNKNOWN, [new_item()]),
                lambda: M.ea_item_replace(sid, UNKNOWN, [new_item()]),
                lambda: M.item_insert(UNKNOWN, fi, [new_item()]),
                lambda: M.ea_item_move(UNKNOWN, fi, [li]),
            ]
    outs = []
    for mk in msgs:
        outs.append(B.merge(ro, mk()))
    return outs


def resend_stories(ro, only=None):
    """Pre-history: every story (or the one with ID ``only``) is re-sent by a roStorySend carrying its present
    content.  The stories are then the ones StorySend builds (converted from the <roStorySend> element: the roID
    comes first, the body children are spliced in) - same IDs, same items, same order."""
    import copy
    rc = B.rc_of(ro)
    for st in list(rc.findall('story')):
        sid = st.find('storyID').text
        if only is not None and not (sid is only or sid == only):
            continue
        slug = st.find('storySlug')
        pre, body = [], []
        for c in st:
            if c.tag in ('storyID', 'storySlug'):
                continue
            c2 = copy.deepcopy(c)
            if c.tag == 'mosExternalMetadata':
                pre.append(c2)
            else:
                if c2.tag == 'item':
                    c2.tag = 'storyItem'
                body.append(c2)
        out = B.merge(ro, M.story_send(sid, body=body, slug=slug.text if slug is not None else None, pre=pre, msg_id='0'))
        if out.raised:
            raise RuntimeError('pre-history roStorySend failed: %r' % (out.exc,))
    return ro
