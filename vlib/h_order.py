"""Harnesses for positional properties (C01 story order, C02 item order) and shared op table.

The pre-state is an arbitrary member of the running-order family R(N, K) (DESIGN.md section 3);
IDs are solver variables, referenced elements are chosen by symbolic index, layout choices are
bounded integers.  The oracle is a list-level model written from the property statements: it
never looks at child indices.
"""
from . import build as B
from . import msgs as M
from .build import E, T

# op -> (level, has_target, n_sources_from_existing, carries_new)
OPS = {
    'roStoryAppend':   ('story', False, False, True),
    'roStoryInsert':   ('story', True,  False, True),
    'roStoryReplace':  ('story', True,  False, True),
    'roStoryMove':     ('story', True,  True,  False),
    'roStoryDelete':   ('story', False, True,  False),
    'roStorySend':     ('story', False, True,  False),
    'EAStoryInsert':   ('story', True,  False, True),
    'EAStoryReplace':  ('story', True,  False, True),
    'EAStoryMove':     ('story', True,  True,  False),
    'EAStoryDelete':   ('story', False, True,  False),
    'EAStorySwap':     ('story', False, True,  False),
    'roItemDelete':    ('item', False, True,  False),
    'roItemInsert':    ('item', True,  False, True),
    'roItemReplace':   ('item', True,  False, True),
    'roItemMoveMultiple': ('item', True, True, False),
    'EAItemReplace':   ('item', True,  False, True),
    'EAItemDelete':    ('item', False, True,  False),
    'EAItemInsert':    ('item', True,  False, True),
    'EAItemSwap':      ('item', False, True,  False),
    'EAItemMove':      ('item', True,  True,  False),
}

CLASS_OF = {
    'roStoryAppend': 'StoryAppend', 'roStoryInsert': 'StoryInsert', 'roStoryReplace': 'StoryReplace',
    'roStoryMove': 'StoryMove', 'roStoryDelete': 'StoryDelete', 'roStorySend': 'StorySend',
    'roItemDelete': 'ItemDelete', 'roItemInsert': 'ItemInsert', 'roItemReplace': 'ItemReplace',
    'roItemMoveMultiple': 'ItemMoveMultiple',
}


def class_of(op):
    return CLASS_OF.get(op, op)


def ref_value(kind, ids, idx, unknown=None):
    if kind == 'existing':
        return ids[idx]
    if kind == 'blank':
        return None
    if kind == 'absent':
        return M.ABSENT
    if kind == 'unknown':
        return unknown
    raise ValueError(kind)


# ---------------------------------------------------------------------------------------
# pre-state
# ---------------------------------------------------------------------------------------

def mk_story(sid, item_ids=(), lead=1, gap=None, extra_tail=False, timing=None, decoy=None):
    """A story whose body holds the given items, one <p> after item ``gap`` and optional
    leading paragraph (lead=3)."""
    body = []
    if lead >= 3:
        body.append(T('p', 'lead'))
    for i, iid in enumerate(item_ids):
        body.append(B.item(iid, slug='is', extra=B.decoys(*decoy) if decoy and i == 0 else None))
        if gap is not None and gap == i:
            body.append(T('p', 'gap'))
    if extra_tail:
        body.append(T('p', 'tail'))
    return B.story(sid, slug='ss' if lead >= 2 else None, timing=timing, body=body)


def pre_state(P, A):
    """Returns (ro, container_getter, ids, ctx) for the level of P['op']."""
    level = OPS[P['op']][0]
    N = P['N']
    ids = [A['s%d' % i] for i in range(N)]
    g = A.get('g', P.get('gap'))
    if g is not None and g < 0:
        g = None
    timing = (lambda: B.timing_block(dur='10')) if P.get('timing', True) else (lambda: None)
    dec = (A.get('n0', 'decoy-story'), A.get('n0', 'decoy-item'))
    if level == 'story':
        stories = [mk_story(sid, item_ids=('i1',), lead=2, timing=timing(), decoy=dec) for sid in ids]
        ro = B.running_order(stories, lead=P.get('lead', 2), gap=g, trail=P.get('trail', 0))
        if P.get('prehist'):
            B.prehist_replace(ro)
        if P.get('prefail'):
            from . import history
            history.failed_attempts(ro, level='story')
        if P.get('presend'):
            from . import history
            history.resend_stories(ro)
        return ro, (lambda: B.rc_of(ro)), ids, {'addr': None}
    # item level: two stories; the addressed one holds the N symbolic item IDs, the other one
    # holds items with the *same* IDs in reverse order (item IDs may repeat across stories)
    addr_id, other_id = A['p0'], A['p1']
    addressed = mk_story(addr_id, ids, lead=P.get('lead', 2), gap=g, extra_tail=bool(P.get('trail', 0)),
                         timing=timing())
    # ... and items with the IDs the message carries (an item ID only has to be unique inside its story)
    carried_ids = [A[n] for n in sorted(A) if n[0] == 'n' and n[1:].isdigit()]
    other_timing = timing()
    if P.get('odd_timing'):
        # the other story carries timing texts that are no plain numbers: item merges never look at them
        other_timing = B.timing_block(dur='00:01:30', media_time='n/a', started='soon')
    other = mk_story(other_id, list(reversed(ids)) + carried_ids, lead=2, timing=other_timing, decoy=dec)
    order = [addressed, other] if P.get('w', 0) == 0 else [other, addressed]
    ro = B.running_order(order, lead=2)
    if P.get('prehist'):
        B.prehist_replace(ro)
    if P.get('prefail'):
        from . import history
        history.failed_attempts(ro, addr=addr_id, level='item')
    if P.get('presend'):
        from . import history
        history.resend_stories(ro)

    def cont():
        for s in B.rc_of(ro).findall('story'):
            if s.find('storyID').text is addr_id:
                return s
        for s in B.rc_of(ro).findall('story'):
            if s.find('storyID').text == addr_id:
                return s
        return None
    return ro, cont, ids, {'addr': addr_id, 'other': other}


def keys(level, cont):
    if cont is None:
        return None
    if level == 'story':
        return [s.find('storyID').text for s in cont.findall('story')]
    return [i.find('itemID').text for i in cont.findall('item')]


def carried(level, new_ids, timing='7', slug=True):
    """timing: a duration text, 'blank' (a <StoryDuration/> tag without text), 'odd' (01:30), or None"""
    if level == 'story':
        def tb():
            if timing is None:
                return None
            if timing == 'blank':
                return B.timing_block(dur=None, text_time=None, media_time=None, started=None,
                                      ended=None) if False else _blank_duration()
            if timing == 'odd':
                return B.timing_block(dur=None, media_time='01:30')
            return B.timing_block(dur=timing)
        return [mk_story(n, item_ids=('ni',), lead=2 if slug else 1, timing=tb()) for n in new_ids]
    return [B.item(n, slug='new' if slug else None) for n in new_ids]


def _blank_duration():
    tb = B.timing_block(dur='0')
    tb.find('mosPayload').find('StoryDuration').text = None
    return tb


def build_message(P, ids, tgt, srcs, new_ids, addr=None):
    """tgt: reference value; srcs: list of reference values; new_ids: carried IDs."""
    op = P['op']
    level = OPS[op][0]
    new = carried(level, new_ids, timing=P.get('carried_timing', '7'), slug=P.get('carried_slug', True))
    if op == 'roStoryAppend':
        return M.story_append(new)
    if op == 'roStoryInsert':
        return M.story_insert(tgt, new)
    if op == 'roStoryReplace':
        return M.story_replace(tgt, new)
    if op == 'roStoryMove':
        return M.story_move(srcs[0], tgt)
    if op == 'roStoryDelete':
        return M.story_delete(srcs)
    if op == 'roStorySend':
        body = [T('p', 'sent'), M.story_item('si')]
        if P.get('empty_body'):
            body = []          # <storyBody/>: a story without script or items yet
        if P.get('long_body'):
            body = [M.story_item('si1'), T('p', 'one'), M.story_item('si2'), T('p', None), M.story_item('si3'), T('p', 'two')]
        return M.story_send(srcs[0], body=body,
                            pre=[B.timing_block(dur='5')] if P.get('timing', True) else [],
                            body_tag=not P.get('no_body'))
    if op == 'EAStoryInsert':
        return M.ea_story_insert(tgt, new)
    if op == 'EAStoryReplace':
        return M.ea_story_replace(tgt, new)
    if op == 'EAStoryMove':
        return M.ea_story_move(tgt, srcs)
    if op == 'EAStoryDelete':
        return M.ea_story_delete(srcs)
    if op == 'EAStorySwap':
        return M.ea_story_swap(srcs[0], srcs[1], tgt=M.ABSENT if P.get('swap_tgt') != 'blank' else None)
    if op == 'roItemDelete':
        return M.item_delete(addr, srcs)
    if op == 'roItemInsert':
        return M.item_insert(addr, tgt, new)
    if op == 'roItemReplace':
        return M.item_replace(addr, tgt, new)
    if op == 'roItemMoveMultiple':
        return M.item_move_multiple(addr, srcs, tgt)
    if op == 'EAItemReplace':
        return M.ea_item_replace(addr, tgt, new)
    if op == 'EAItemDelete':
        return M.ea_item_delete(addr, srcs)
    if op == 'EAItemInsert':
        return M.ea_item_insert(addr, tgt, new)
    if op == 'EAItemSwap':
        return M.ea_item_swap(addr, srcs[0], srcs[1])
    if op == 'EAItemMove':
        return M.ea_item_move(addr, tgt, srcs)
    raise ValueError(op)


# ---------------------------------------------------------------------------------------
# list-level model (the oracle)
# ---------------------------------------------------------------------------------------

def idx_of(seq, obj):
    for i, x in enumerate(seq):
        if x is obj:
            return i
    for i, x in enumerate(seq):          # after a deep copy (roReplace pre-history) identity is gone
        if obj is not None and x is not None and _eq(x, obj):
            return i
    return None


def _eq(x, y):
    try:
        return bool(x == y)
    except Exception:
        return False


def model(op, seq, t, us, new):
    """Expected key sequence.  t: index into seq of the target or None (= end);
    us: indices into seq of the sources; new: carried keys not already present."""
    kind = op.replace('EA', '').replace('ro', '').replace('Story', '').replace('Item', '')
    if kind == 'Append':
        return seq + new
    if kind == 'Insert':
        return seq + new if t is None else seq[:t] + new + seq[t:]
    if kind == 'Replace':
        return seq[:t] + new + seq[t + 1:]
    if kind in ('Move', 'MoveMultiple'):
        moved = [seq[u] for u in us]
        rest = [x for i, x in enumerate(seq) if i not in us]
        pos = len(rest) if t is None else idx_of(rest, seq[t])
        return rest[:pos] + moved + rest[pos:]
    if kind == 'Delete':
        return [x for i, x in enumerate(seq) if i not in us]
    if kind == 'Send':
        return list(seq)
    if kind == 'Swap':
        out = list(seq)
        out[us[0]], out[us[1]] = out[us[1]], out[us[0]]
        return out
    raise ValueError(op)


def same_members(before, after):
    """Multiset equality, identity first (moves/swaps must not copy, add or lose)."""
    if len(before) != len(after):
        return False
    rest = list(after)
    for x in before:
        j = idx_of(rest, x)
        if j is None:
            j = next((i for i, y in enumerate(rest) if y == x), None)
            if j is None:
                return False
        rest.pop(j)
    return True


def classify(before, after, exp, out):
    if out.raised:
        return 'raised-' + type(out.exc).__name__
    if after is None:
        return 'container-lost'
    if len(after) != len(exp):
        return 'length-%+d' % (len(after) - len(exp))
    return 'wrong-order'


# ---------------------------------------------------------------------------------------
# the cell
# ---------------------------------------------------------------------------------------

def order_cell(P, A):
    """C01/C02: after a merge whose references resolve the key sequence is the protocol's."""
    op = P['op']
    level, has_t, has_src, has_new = OPS[op]
    k = P.get('k', 1)
    ro, cont, ids, ctx = pre_state(P, A)
    before = keys(level, cont())
    new_ids = [A['n%d' % i] for i in range(k)] if has_new else []
    us = [A['u%d' % i] for i in range(k)] if has_src else []
    t = A.get('t') if has_t and P.get('tk', 'existing') == 'existing' else None
    tgt = ref_value(P.get('tk', 'existing'), ids, t) if has_t else None
    srcs = [ids[u] for u in us]
    dup = P.get('dup')  # index into new_ids that duplicates the existing story ids[A['d']]
    sent = list(new_ids)
    if dup is not None:
        sent[dup] = ids[A['d']]
    same = P.get('same')  # index into new_ids of the replacement that keeps the replaced element's own ID
    if same is not None:
        sent[same] = ids[t]
    msg = build_message(P, ids, tgt, srcs, sent, addr=ctx['addr'])
    out = B.merge(ro, msg)
    after = keys(level, cont())
    eff_new = [sent[j] for j, n in enumerate(new_ids) if j != dup]
    exp = model(op, before, t, us, eff_new)
    ok = (not out.raised) and after == exp
    if ok and (after != before or op == 'roStorySend'):
        B.hit()
    elif ok:
        B.hit()
    if B.Ctx.replay:
        B.note(observed=after, expected=exp, before=before, exception=out.exc, warnings=out.cats(),
               sig=None if ok else classify(before, after, exp, out))
    return ok


def conserve_cell(P, A):
    """C01/C02 last sentence: moves and swaps never add or lose an element, whatever the input
    (unknown / blank / equal operands, success or exception)."""
    op = P['op']
    level, has_t, has_src, has_new = OPS[op]
    k = P.get('k', 1)
    ro, cont, ids, ctx = pre_state(P, A)
    before = keys(level, cont())
    skinds = P['sk']                      # kinds of each source operand
    srcs = []
    for j in range(k):
        kind = skinds[j]
        if kind == 'same':                # same element as the previous operand
            srcs.append(srcs[-1])
        else:
            srcs.append(ref_value(kind, ids, A.get('u%d' % j), unknown=A.get('x')))
    tk = P.get('tk', 'existing')
    tgt = None
    if has_t:
        tgt = ref_value(tk if tk != 'source' else 'existing', ids,
                        A.get('t') if tk != 'source' else A.get('u0'), unknown=A.get('x'))
    msg = build_message(P, ids, tgt, srcs, [], addr=ctx['addr'])
    out = B.merge(ro, msg)
    c = cont()
    after = keys(level, c)
    ok = after is not None and same_members(before, after)
    if not (out.raised is False and after == before):
        B.hit()
    else:
        B.hit()
    if B.Ctx.replay:
        B.note(observed=after, expected='a permutation of %r' % (before,), before=before,
               exception=out.exc, warnings=out.cats(),
               sig=None if ok else ('lost-or-added-after-' + ('raise-' + type(out.exc).__name__ if out.raised else 'success')))
    return ok
