"""C14 - every reachable running order serialises to XML that reads back identically."""
from .cells import Cell, distinct, str_pre
from .h_merge import make_cells
from .h_roundtrip import STEPS
from .p_c03 import icell
from .p_c04 import mcell, rcell, META_CARRIES

PID = 'C14'
ASSUMPTIONS = [
    'solver-decided part: (1) envelope invariants after every merge cell (exactly one roCreate, original '
    'messageID and roID, at most one completion record, every tag/text/tail a str or None); (2) str(ro) executed '
    'symbolically on trees holding two free 1-character texts (tab/newline/printable ASCII, one cell Latin-1; '
    '& < > " are inside) has exactly the length of a reference serialisation with XML escaping (a missing, '
    'extra or wrong-size escape changes it); full string equality is beyond the string solver (measured)',
    'the literal read-back from_string(str(ro)) needs expat on a concrete string: it is the oracle of every '
    'replay and of the concrete anchor run of every cell (examples contain & < > " and non-ASCII)',
]
CH = "chr(9) + chr(10) + ' -~'"
CHX = "chr(9) + chr(10) + ' -~' + chr(160) + '-' + chr(255)"


def bounds(tier):
    return {'history_steps': '<=2', 'symbolic_texts': 2, 'text_len': '<=2' if tier == 'quick' else '<=3',
            'steps': list(STEPS)}


def rt(steps, maxlen=2, T=60, latin=False, tree='full', cmp='length', msg_envelope=None, example=None):
    P = {'steps': list(steps), 'tree': tree, 'cmp': cmp, 'msg_envelope': msg_envelope}
    sym = [('c0', 'str'), ('c1', 'str')]
    # the parser never yields '' (it yields None), so texts have at least one character
    pre = ["re.fullmatch('[' + %s + ']{1,%d}', c0)" % (CHX if latin else CH, maxlen),
           "re.fullmatch('[' + %s + ']{1,%d}', c1)" % (CH, maxlen)]
    return Cell(pid=PID, cid='C14/roundtrip/%s/%s-%s/len%d%s%s' % ('+'.join(steps), tree, cmp, maxlen, '/latin1' if latin else '',
                                                    ('/msg-envelope-' + msg_envelope) if msg_envelope else ''),
                harness='h_roundtrip:roundtrip_cell',
                params=P, sym=sym, pre=pre, stubs=('hash',), timeout=T, cost=30,
                example=example or {'c0': '&<'[:maxlen], 'c1': '"é>'[:maxlen]})


def cells(tier):
    T = 60 if tier == 'quick' else 600
    L = 2 if tier == 'quick' else 3
    out = []
    # whole-string equality between str(ro) and a reference serialisation was measured to exceed the string
    # solver even on a 7-element tree (no path completes in 60 s); the length comparison below is what z3
    # decides, and the literal read-back is the oracle of replays/anchors (see ASSUMPTIONS)
    quick_steps = ('none', 'roStorySend', 'roReplace', 'roMetadataReplace', 'roDelete', 'roStoryInsert', 'roItemReplace')
    for st in STEPS:
        if tier == 'thorough' or st in quick_steps:
            out.append(rt([st], maxlen=1, T=2 * T))
    pairs = (('roStorySend', 'roDelete'), ('roReplace', 'roStoryInsert'), ('roMetadataReplace', 'roReplace'),
             ('roStoryInsert', 'roItemInsert'), ('roMetadataReplace', 'roMetadataReplace'), ('roReplace', 'roDelete'))
    for pair in pairs[:2] if tier == 'quick' else pairs:
        out.append(rt(pair, maxlen=1, T=2 * T))
    # messages whose <mos> envelope has fewer / more header children than the running order's
    for st in ('roReplace', 'roStorySend', 'roDelete', 'roMetadataReplace'):
        for lay in ('short', 'long'):
            out.append(rt([st], maxlen=1, T=2 * T, msg_envelope=lay))
    out.append(rt(['roReplace', 'roStoryInsert'], maxlen=1, T=2 * T, msg_envelope='short'))
    # IDs that are whitespace (concrete anchors: ' ' and tab) - they must survive the round trip as they are
    out.append(rt(['none'], maxlen=1, T=2 * T, tree='ids', example={'c0': ' ', 'c1': chr(9)}))
    out.append(rt(['roItemReplace'], maxlen=1, T=2 * T, tree='ids', example={'c0': chr(10), 'c1': ' '}))
    out.append(rt(['none'], maxlen=1, T=2 * T, latin=True))
    out.append(rt(['roStorySend'], maxlen=1, T=2 * T, latin=True,
                  example={'c0': 'a &#12; b &lt;i&gt;', 'c1': 'x &amp;#12; y \U0001F600'}))
    out.append(rt(['roItemInsert', 'roStoryReplace'], maxlen=1, T=2 * T,
                  example={'c0': '&amp;#13;&#10;', 'c1': '&quot; \u2028 \u00a0'}))
    # envelope invariants after every kind of merge (resolvable or not)
    keep = lambda op, story_k, tk, sk, nk: (sk is None or len(sk) <= 1 or sk == ['existing', 'existing']) and \
        (nk is None or len(nk) <= 1) and (tier == 'thorough' or story_k in (None, 'existing'))
    out += make_cells(PID, 'envelope', tier, thin=keep)
    for carry in META_CARRIES[:8]:
        out.append(mcell(PID, 'envelope', carry, T=T))
    for N, k in ((2, 1), (2, 2), (3, 0)):
        out.append(rcell(PID, N, k, T=T))
    out.append(rcell(PID, 2, 2, T=T, repeat_id=True))
    out.append(rcell(PID, 2, 2, T=T, base_attrs=True))
    out.append(rcell(PID, 1, 1, T=T, repeat_id=True))
    # states reached through a collection merge (strict and non-strict, with failing messages, complete or not)
    from .p_c09 import mk as cmk
    for kinds in (('roStoryMove', 'roStoryInsert'), ('roStorySend', 'roDelete'), ('roStoryReplace', 'roMetadataReplace'),
                  ('roDelete', 'roStoryAppend')):
        for strict in (True, False):
            out.append(cmk(PID, kinds, strict, 'string', T=90 if tier == 'quick' else 600, readback=True, tag='reads-back'))
    out.append(cmk(PID, ('roItemInsert', 'roReplace', 'roStoryDelete'), False, 'file', T=90 if tier == 'quick' else 600,
                   mids=['9', '10', '100'], readback=True, tag='reads-back'))
    out.append(icell(PID, 'roDelete', N=2, T=T))
    out.append(icell(PID, 'roReadyToAir', N=2, T=T))
    for tw in ('same', 'blank', 'free'):
        out.append(icell(PID, 'roDelete', N=2, T=T, twice=tw))
    out.append(icell(PID, 'roDelete', N=1, T=T, twice='free', free_roid=True))
    return out
