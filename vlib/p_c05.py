"""C05 - generic merge cells with the 'atomic' oracle (see h_merge.py)."""
from .h_merge import make_cells

PID = 'C05'
ASSUMPTIONS = []


def bounds(tier):
    return {'N': 3 if tier == 'quick' else 4, 'sources_k': '<=2' if tier == 'quick' else '<=3', 'carried': '<=2', 'id_length': 1, 'id_alphabet': 'U+0020..U+007E'}


def cells(tier):
    return make_cells(PID, 'atomic', tier)
