"""C05 - generic merge cells with the 'atomic' oracle (see h_merge.py)."""
from .h_merge import make_cells

PID = 'C05'
ASSUMPTIONS = []


def bounds(tier):
    return {'N': 3 if tier == 'quick' else 4, 'sources_k': '<=2' if tier == 'quick' else '<=3', 'carried': '<=2', 'id_length': 1, 'id_alphabet': 'U+0020..U+007E'}


def cells(tier):
    out = make_cells(PID, 'atomic', tier)
    # the same from a state reached through a roReplace (new roCreate element, deep-copied children)
    plain = lambda op, story_k, tk, sk, nk: story_k in (None, 'existing') and tk in (None, 'existing', 'unknown') and \
        (sk is None or sk in (['existing'], ['existing', 'existing'], ['existing', 'unknown'])) and (nk is None or nk == ['fresh'])
    # quick tier: the history / layout variations use one resolvable representative per message shape
    hist = plain if tier == 'thorough' else (lambda op, story_k, tk, sk, nk: plain(op, story_k, tk, sk, nk) and tk in (None, 'existing') and
                                             (sk is None or 'unknown' not in sk))
    out += make_cells(PID, 'atomic', tier, N=3, thin=hist, extra={'prehist': True}, suffix='after-roReplace')
    # ... and after a series of refused messages (what a non-strict collection merge leaves behind)
    out += make_cells(PID, 'atomic', tier, N=3, thin=hist, extra={'prefail': True}, suffix='after-refused-messages')
    # ... and when every story was re-sent by a roStorySend before
    out += make_cells(PID, 'atomic', tier, N=3, thin=hist, extra={'presend': True}, suffix='after-roStorySend-of-every-story')
    # roDelete / roReadyToAir into timed, untimed, empty running orders; a roDelete naming another or no running order
    from .p_c03 import icell
    T_ = 60 if tier == 'quick' else 600
    for op in ('roDelete', 'roReadyToAir'):
        for N_ in (0, 2):
            out.append(icell(PID, op, N=N_, T=T_, prop='atomic'))
    out.append(icell(PID, 'roDelete', N=2, T=T_, prop='atomic', free_roid=True))
    out.append(icell(PID, 'roDelete', N=2, T=T_, prop='atomic', twice='free'))
    out.append(icell(PID, 'roDelete', N=2, T=T_, prop='atomic', edstart='2022-03-04T12:29:45', last_ended='2022-03-04T13:00:00Z'))
    # a container that holds the same ID twice (first and last element)
    out += make_cells(PID, 'atomic', tier, N=3, thin=plain, extra={'dup_state': [0, 2]}, suffix='repeated-id-in-container')
    # messages whose messageID is not a number (or blank) and whose references all resolve: nothing has to be
    # reported, so nothing may raise half-way (messages of this kind that must be REPORTED are outside the claim:
    # the report text formats int(messageID), see DESIGN.md section 8)
    resolvable = lambda op, story_k, tk, sk, nk: story_k in (None, 'existing') and tk in (None, 'existing') and \
        (sk is None or sk in (['existing'], ['existing', 'existing'])) and (nk is None or nk == ['fresh'])
    for mid, name in (('n/a', 'text'), ('', 'blank')):
        out += make_cells(PID, 'atomic', tier, N=3, thin=resolvable, extra={'mid': mid}, suffix='message-id-' + name)
    # the smallest shapes: one story / item, and every story / item of the container named by the message
    def small(n):
        def f(op, story_k, tk, sk, nk):
            need = (sk or []).count('existing') + (1 if tk == 'existing' and sk else 0)
            return need <= n and (nk is None or nk in (['fresh'], [])) and story_k in (None, 'existing') and \
                (sk is None or sk in (['existing'], ['existing', 'same'], ['existing', 'unknown'], ['existing', 'existing'], []))
        return f
    out += make_cells(PID, 'atomic', tier, N=1, thin=small(1), suffix='single-element')
    out += make_cells(PID, 'atomic', tier, N=2, thin=lambda op, story_k, tk, sk, nk: small(2)(op, story_k, tk, sk, nk) and
                      (sk or []).count('existing') == 2, suffix='all-elements-named')
    # a roStorySend without storyBody (header-only send) may fail, but then nothing may have been touched
    only = lambda op, story_k, tk, sk, nk: True
    out += make_cells(PID, 'atomic', tier, N=3, ops=['roStorySend'], extra={'no_body': True}, suffix='no-storyBody')
    out += make_cells(PID, 'atomic', tier, N=3, ops=['roStorySend'], extra={'empty_body': True}, suffix='empty-storyBody')
    # carried stories whose duration text cannot be parsed (blank <StoryDuration/>, "01:30"): whatever the merge
    # does with them, if it raises the running order is as before
    ins = lambda op, story_k, tk, sk, nk: tk in (None, 'existing') and nk in (['fresh', 'fresh'], ['fresh'])
    for ct in ('blank', 'odd'):
        out += make_cells(PID, 'atomic', tier, N=3, thin=ins, extra={'carried_timing': ct}, suffix='carried-duration-' + ct,
                          ops=['roStoryInsert', 'roStoryReplace', 'roStoryAppend', 'EAStoryInsert', 'EAStoryReplace'])
    # item-level cells without the trailing paragraph: the last item is the story's last child
    it = lambda op, story_k, tk, sk, nk: story_k == 'existing' and (sk is None or len(sk) == 2)
    out += make_cells(PID, 'atomic', tier, N=3, thin=it, extra={'tail': False}, suffix='no-tail',
                      ops=['roItemMoveMultiple', 'EAItemMove', 'EAItemSwap', 'roItemDelete', 'EAItemDelete'])
    # a story / item with a blank ID in the MIDDLE of the container (between the elements a multi-ID message names)
    multi = lambda op, story_k, tk, sk, nk: story_k in (None, 'existing') and tk in (None, 'existing', 'blank') and \
        (sk is None or sk in (['existing', 'existing'], ['existing', 'unknown'], ['existing'])) and (nk is None or nk == ['fresh'])
    for mid in (1, 2):
        out += make_cells(PID, 'atomic', tier, N=3, thin=multi, extra={'blank_mid': mid}, suffix='blank-id-at-%d' % mid)
    # roMetadataReplace with any carried tags (free text where a timestamp is expected, schema-less blocks)
    from .p_c04 import mcell
    for carry in ([], ['roEdStart-text'], ['roEdStart-text', 'metaA'], ['metaNone'], ['metaBlank', 'fresh'], ['metaA', 'metaB', 'metaX'],
                  ['roChannel', 'roEdStart-text']):
        out.append(mcell(PID, 'atomic', carry, T=60 if tier == 'quick' else 600))
    # roMetadataReplace into a running order without stories
    from .p_c04 import mcell as _mcell
    for carry in ([], ['fresh'], ['metaX'], ['roEdStart', 'metaA']):
        out.append(_mcell(PID, 'atomic', carry, N=0, T=60 if tier == 'quick' else 600, gap=None))
    if tier == 'thorough':
        # one more size: five (and six) stories / items for the resolvable and k-th-unresolvable shapes
        out += make_cells(PID, 'atomic', tier, N=5, thin=plain, suffix='N5')
        out += make_cells(PID, 'atomic', tier, N=6, thin=lambda op, story_k, tk, sk, nk: plain(op, story_k, tk, sk, nk) and tk in (None, 'existing') and
                          (sk is None or sk == ['existing', 'existing']), suffix='N6')
    return out
