"""C06 - generic merge cells with the 'report' oracle (see h_merge.py)."""
from .h_merge import make_cells

PID = 'C06'
ASSUMPTIONS = []


def bounds(tier):
    return {'N': 3 if tier == 'quick' else 4, 'sources_k': '<=2' if tier == 'quick' else '<=3', 'carried': '<=2', 'id_length': 1, 'id_alphabet': 'U+0020..U+007E'}


def cells(tier):
    return make_cells(PID, 'report', tier)
