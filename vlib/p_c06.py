"""C06 - generic merge cells with the 'report' oracle (see h_merge.py)."""
from .h_merge import make_cells

PID = 'C06'
ASSUMPTIONS = []


def bounds(tier):
    return {'N': 3 if tier == 'quick' else 4, 'sources_k': '<=2' if tier == 'quick' else '<=3', 'carried': '<=2', 'id_length': 1, 'id_alphabet': 'U+0020..U+007E'}


def cells(tier):
    out = make_cells(PID, 'report', tier)
    # the same from a state reached through a roReplace (new roCreate element, deep-copied children)
    plain = lambda op, story_k, tk, sk, nk: story_k in (None, 'existing') and tk in (None, 'existing', 'unknown') and \
        (sk is None or sk in (['existing'], ['existing', 'existing'], ['existing', 'unknown'])) and (nk is None or nk == ['fresh'])
    # quick tier: the history / layout variations use one resolvable representative per message shape
    hist = plain if tier == 'thorough' else (lambda op, story_k, tk, sk, nk: plain(op, story_k, tk, sk, nk) and tk in (None, 'existing') and
                                             (sk is None or 'unknown' not in sk))
    out += make_cells(PID, 'report', tier, N=3, thin=hist, extra={'prehist': True}, suffix='after-roReplace')
    # ... and after a series of refused messages (what a non-strict collection merge leaves behind)
    out += make_cells(PID, 'report', tier, N=3, thin=hist, extra={'prefail': True}, suffix='after-refused-messages')
    # ... and when every story was re-sent by a roStorySend before
    out += make_cells(PID, 'report', tier, N=3, thin=hist, extra={'presend': True}, suffix='after-roStorySend-of-every-story')
    # carried stories / items without the optional slug (fresh ones and duplicates)
    out += make_cells(PID, 'report', tier, N=3, thin=lambda op, story_k, tk, sk, nk: nk is not None and story_k in (None, 'existing') and tk in (None, 'existing') and
                      (tier == 'thorough' or 'Story' in op or nk == ['fresh']),
                      extra={'carried_slug': False}, suffix='carried-without-slug')
    # the smallest shapes: one story / item, and every story / item of the container named by the message
    def small(n):
        def f(op, story_k, tk, sk, nk):
            need = (sk or []).count('existing') + (1 if tk == 'existing' and sk else 0)
            return need <= n and (nk is None or nk in (['fresh'], [])) and story_k in (None, 'existing') and \
                (sk is None or sk in (['existing'], ['existing', 'same'], ['existing', 'unknown'], ['existing', 'existing'], []))
        return f
    out += make_cells(PID, 'report', tier, N=1, thin=small(1), suffix='single-element')
    out += make_cells(PID, 'report', tier, N=2, thin=lambda op, story_k, tk, sk, nk: small(2)(op, story_k, tk, sk, nk) and
                      (sk or []).count('existing') == 2, suffix='all-elements-named')
    # the same reports reach the caller when the messages are merged through a collection (whichever messages
    # resolve is the solver's choice; messages numbered below the roCreate are merged like the others)
    from .p_c09 import mk as cmk
    T = 90 if tier == 'quick' else 600
    for kinds in (('roStoryDelete', 'roItemDelete'), ('roStoryDelete', 'roStoryInsert'), ('roItemDelete', 'roStoryMove')):
        for strict in (True, False):
            out.append(cmk(PID, kinds, strict, 'string', T=T, tag='reports-through-a-collection'))
        out.append(cmk(PID, kinds, False, 'file', T=T, mids=['3', '20'], rc_mid='10', perm=[2, 0, 1], tag='reports-through-a-collection'))
    out.append(cmk(PID, ('roStoryDelete', 'roItemDelete', 'roStoryDelete'), False, 's3', T=T, tag='reports-through-a-collection'))
    # several messages after the roDelete: each of them is reported on its own
    for strict in (True, False):
        out.append(cmk(PID, ('roDelete', 'roStoryDelete', 'roItemDelete'), strict, 'string', T=T, mids=['3', '20', '30'], tag='reports-through-a-collection'))
    out.append(cmk(PID, ('roDelete', 'roStoryMove', 'roStoryAppend', 'roReadyToAir'), False, 'file', T=T, mids=['3', '20', '30', '40'], perm=[4, 2, 0, 3, 1], tag='reports-through-a-collection'))
    # fully applied messages of the remaining types emit no mosromgr warning: roReplace (also one that repeats a story
    # ID), roMetadataReplace, roDelete, roReadyToAir
    from .p_c04 import rcell, mcell
    from .p_c03 import icell
    for N, k, kw in ((2, 2, {'no_warn': True}), (2, 2, {'repeat_id': True, 'no_warn': True}), (3, 1, {'repeat_id': True, 'no_warn': True})):
        out.append(rcell(PID, N, k, T=60 if tier == 'quick' else 600, **kw))
    for op in ('roDelete', 'roReadyToAir'):
        out.append(icell(PID, op, N=2, T=60 if tier == 'quick' else 600))
    if tier == 'thorough':
        # one more size: five (and six) stories / items for the resolvable and k-th-unresolvable shapes
        out += make_cells(PID, 'report', tier, N=5, thin=plain, suffix='N5')
        out += make_cells(PID, 'report', tier, N=6, thin=lambda op, story_k, tk, sk, nk: plain(op, story_k, tk, sk, nk) and tk in (None, 'existing') and
                          (sk is None or sk == ['existing', 'existing']), suffix='N6')
    return out
