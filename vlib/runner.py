"""Pool of CrossHair workers, verdict protocol (DESIGN.md section 5) and evidence files."""
import importlib
import json
import multiprocessing as mp
import os
import re
import shutil
import subprocess
import sys
import tempfile
import time

from . import worker
from .cells import Cell

ROOT = os.path.dirname(os.path.dirname(os.path.abspath(__file__)))
KNOWN_FILE = os.path.join(ROOT, 'KNOWN_FINDINGS.txt')
HARNESS_ERROR_EXIT = 3


# ---------------------------------------------------------------------------------------
# known findings
# ---------------------------------------------------------------------------------------

def load_known():
    """known: property=<id> cell=<cell-id-regex> sig=<fingerprint> <what fails>"""
    known, fixed = [], []
    if not os.path.exists(KNOWN_FILE):
        return known, fixed
    for line in open(KNOWN_FILE):
        line = line.strip()
        if not line or line.startswith('#'):
            continue
        if line.startswith('known:'):
            m = re.match(r'known:\s+property=(\S+)\s+cell=(\S+)\s+sig=(\S+)\s+(.*)$', line)
            if m:
                known.append({'pid': m.group(1), 'cell': m.group(2), 'sig': m.group(3),
                              'what': m.group(4)})
        elif line.startswith('fixed:'):
            fixed.append(line)
    return known, fixed


# ---------------------------------------------------------------------------------------
# pool
# ---------------------------------------------------------------------------------------

class Pool:
    def __init__(self, jobs, workdir):
        self.jobs = jobs
        self.workdir = workdir
        self.ctx = mp.get_context('fork')
        self.slots = []   # [proc, conn, task, deadline]

    def _spawn(self):
        parent, child = self.ctx.Pipe()
        p = self.ctx.Process(target=worker.worker_main, args=(child, self.workdir), daemon=True)
        p.start()
        child.close()
        return [p, parent, None, None]

    def run(self, tasks, on_result, hard_factor=2.5):
        """tasks: list of (cell, fn_name, timeout). Calls on_result(task, result)."""
        pending = list(tasks)
        pending.sort(key=lambda t: -t[0].cost)
        n = min(self.jobs, max(1, len(pending)))
        while len(self.slots) < n:
            self.slots.append(self._spawn())
        active = 0
        while pending or active:
            for s in self.slots:
                if s[2] is None and pending:
                    task = pending.pop(0)
                    s[1].send(task)
                    s[2] = task
                    tmo = task[2] or task[0].timeout
                    s[3] = time.time() + tmo * hard_factor + 30
                    active += 1
            progressed = False
            for i, s in enumerate(self.slots):
                if s[2] is None:
                    continue
                try:
                    ready = s[1].poll(0)
                except (OSError, EOFError):
                    ready = False
                if ready:
                    try:
                        res = s[1].recv()
                    except (EOFError, OSError):
                        res = None
                    task = s[2]
                    if res is None:
                        res = self._dead(task, 'worker died')
                        self._replace(i)
                    else:
                        s[2] = None
                    active -= 1
                    progressed = True
                    on_result(task, res)
                elif not s[0].is_alive():
                    task = s[2]
                    self._replace(i)
                    active -= 1
                    progressed = True
                    on_result(task, self._dead(task, 'worker died (exit %s)' % s[0].exitcode))
                elif time.time() > s[3]:
                    task = s[2]
                    s[0].kill()
                    self._replace(i)
                    active -= 1
                    progressed = True
                    on_result(task, self._dead(task, 'hard timeout: worker killed', state='TIMEOUT'))
            if not progressed:
                time.sleep(0.02)

    def _dead(self, task, why, state='HARNESS_ERROR'):
        return {'cid': task[0].cid, 'fn': task[1], 'state': state, 'message': why, 'paths': 0,
                'confirmed_paths': 0, 'queries': 0, 'solver_s': 0.0, 'unknown': 0, 'nontrivial': 0,
                'wall_s': 0.0}

    def _replace(self, i):
        try:
            self.slots[i][1].close()
        except Exception:
            pass
        self.slots[i] = self._spawn()

    def close(self):
        for s in self.slots:
            try:
                s[1].send(None)
            except Exception:
                pass
        for s in self.slots:
            s[0].join(timeout=2)
            if s[0].is_alive():
                s[0].kill()


# ---------------------------------------------------------------------------------------
# replay (plain interpreter, public API)
# ---------------------------------------------------------------------------------------

def replay_inline(cell, args, lex=False, bump=False, indent=False):
    """Run the harness on concrete arguments in *this* interpreter (must be CrossHair-free)."""
    from .build import Ctx, conc
    Ctx.reset(replay=True)
    Ctx.lex = lex
    Ctx.bump = bump
    Ctx.indent = indent
    fn = cell.harness_fn()
    err = None
    ok = None
    from .worker import Stubs
    try:
        ok = bool(fn(cell.params, dict(args)))
    except Exception as e:
        # the harness captures exceptions of the code under test itself; anything escaping the
        # harness function is a defect of the harness, never a violation
        import traceback
        err = 'harness raised %s: %s' % (type(e).__name__, e)
        Ctx.info['traceback'] = traceback.format_exc()
        ok = None
    info = {k: conc(v) for k, v in Ctx.info.items()}
    return {'ok': ok, 'error': err, 'info': info, 'docs': list(Ctx.docs),
            'nontrivial': Ctx.nontrivial}


def cell_to_json(cell):
    return {'pid': cell.pid, 'cid': cell.cid, 'harness': cell.harness, 'params': cell.params,
            'sym': cell.sym, 'pre': cell.pre, 'stubs': list(cell.stubs)}


def cell_from_json(d):
    return Cell(pid=d['pid'], cid=d['cid'], harness=d['harness'], params=d['params'],
                sym=[tuple(x) for x in d['sym']], pre=d['pre'], stubs=tuple(d.get('stubs', ())))


def replay_subprocess(cell, args):
    """Fresh plain interpreter: no CrossHair, no stubs; values go through XML text."""
    payload = json.dumps({'cell': cell_to_json(cell), 'args': args})
    env = dict(os.environ)
    env['PYTHONPATH'] = ROOT + os.pathsep + env.get('PYTHONPATH', '')
    env['PYTHONDONTWRITEBYTECODE'] = '1'
    try:
        p = subprocess.run([sys.executable, '-m', 'vlib.main', '--replay-json', '-'],
                           input=payload, capture_output=True, text=True, cwd=ROOT, env=env,
                           timeout=300)
    except subprocess.TimeoutExpired:
        return {'ok': None, 'error': 'replay timed out', 'info': {}, 'docs': []}
    for line in reversed(p.stdout.splitlines()):
        if line.startswith('REPLAY-RESULT '):
            return json.loads(line[len('REPLAY-RESULT '):])
    return {'ok': None, 'error': 'replay produced no result: ' + (p.stderr or p.stdout)[-2000:],
            'info': {}, 'docs': []}


# ---------------------------------------------------------------------------------------
# a property run
# ---------------------------------------------------------------------------------------

def functions_profile(cell, args):
    """mosromgr functions executed by one concrete run of the cell (informational)."""
    seen = set()

    def prof(frame, event, arg):
        if event == 'call':
            fn = frame.f_code.co_filename
            if '/mosromgr/' in fn:
                seen.add('%s:%s' % (fn.split('/mosromgr/')[-1], frame.f_code.co_qualname))
    from .build import Ctx
    Ctx.reset(replay=True)
    sys.setprofile(prof)
    try:
        cell.harness_fn()(cell.params, dict(args))
    except Exception:
        pass
    finally:
        sys.setprofile(None)
    return seen


def run_property(pid, tier='quick', seed=0, jobs=None, only=None, verbose=False, strict=False):
    t_start = time.time()
    mod = importlib.import_module('vlib.p_' + pid.lower())
    cells = mod.cells(tier)
    if only:
        cells = [c for c in cells if re.search(only, c.cid)]
    ids = [c.cid for c in cells]
    assert len(ids) == len(set(ids)), 'duplicate cell ids: %s' % [i for i in ids if ids.count(i) > 1]
    known, fixed = load_known()
    known = [k for k in known if k['pid'] == pid]
    jobs = jobs or int(os.environ.get('VERIF_JOBS', '0')) or min(16, os.cpu_count() or 4)
    workdir = tempfile.mkdtemp(prefix='vcheck_%s_' % pid)
    os.makedirs(os.path.join(ROOT, 'replays'), exist_ok=True)
    os.makedirs(os.path.join(ROOT, 'evidence'), exist_ok=True)

    # anchors: every cell's example goes through the real parser / public API (concrete)
    anchors = {'run': 0, 'passed': 0, 'failed': []}
    functions = set()
    for c in cells:
        ex = c.derive_example()
        if ex is None:
            anchors['failed'].append({'cell': c.cid, 'why': 'no example satisfies the preconditions'})
            continue
    results = {}
    by_id = {c.cid: c for c in cells}
    pool = Pool(jobs, workdir)
    lines = []

    def say(s):
        print(s, flush=True)
        lines.append(s)

    def on_result(task, res):
        results[(task[0].cid, task[1])] = res
        if verbose:
            print('  [%s] %-60s %-14s paths=%d conf=%d q=%d %.1fs %s' % (
                task[1], task[0].cid, res['state'], res['paths'], res['confirmed_paths'],
                res['queries'], res['wall_s'],
                (res.get('message') or '')[:100] if res['state'] != 'CONFIRMED' else ''), flush=True)

    try:
        tasks = [(c, 'cell', None) for c in cells]
        if tier == 'thorough' and getattr(mod, 'TWINS', True):
            tasks += [(c, 'twin', min(c.timeout, 60.0)) for c in cells]
        pool.run(tasks, on_result)

        # --- verdicts ---------------------------------------------------------------
        summary = {'obligations': len(cells), 'discharged': 0, 'inconclusive': 0, 'violations': 0,
                   'known': 0, 'spurious': 0, 'harness_errors': 0}
        samples, inconc, viols, knowns = [], [], [], []
        residual_tasks = []
        cex = {}
        for c in cells:
            r = results[(c.cid, 'cell')]
            st = r['state']
            if st == 'CONFIRMED':
                if r['confirmed_paths'] < 1 or r['nontrivial'] < 1:
                    summary['harness_errors'] += 1
                    inconc.append({'cell': c.cid, 'why': 'vacuous: confirmed_paths=%d nontrivial=%d' % (
                        r['confirmed_paths'], r['nontrivial'])})
                    say('HARNESS-ERROR cell=%s vacuous (confirmed_paths=%d nontrivial=%d)' % (
                        c.cid, r['confirmed_paths'], r['nontrivial']))
                    continue
                if tier == 'thorough' and (c.cid, 'twin') in results:
                    tw = results[(c.cid, 'twin')]
                    if tw['state'] not in ('POST_FAIL',):
                        summary['harness_errors'] += 1
                        inconc.append({'cell': c.cid, 'why': 'reachability twin not refuted: ' + tw['state']})
                        say('HARNESS-ERROR cell=%s reachability twin came back %s' % (c.cid, tw['state']))
                        continue
                summary['discharged'] += 1
            elif st in ('POST_FAIL', 'EXEC_ERR', 'POST_ERR'):
                cex[c.cid] = r
            else:
                summary['inconclusive'] += 1
                inconc.append({'cell': c.cid, 'why': '%s: %s' % (st, (r.get('message') or '')[:300])})
                say('INCONCLUSIVE cell=%s state=%s %s' % (c.cid, st, (r.get('message') or '')[:200]))
                if st == 'HARNESS_ERROR':
                    summary['harness_errors'] += 1
                    if verbose and r.get('traceback'):
                        print(r['traceback'])

        # --- counterexamples: replay through the public API ---------------------------
        for cid, r in cex.items():
            c = by_id[cid]
            args = r.get('args')
            if args is None:
                summary['inconclusive'] += 1
                summary['harness_errors'] += 1
                inconc.append({'cell': cid, 'why': 'counterexample could not be parsed: ' + r['message'][:300]})
                say('INCONCLUSIVE cell=%s unparsed counterexample: %s' % (cid, r['message'][:300]))
                continue
            rep = replay_subprocess(c, args)
            if rep['ok'] is None:
                summary['inconclusive'] += 1
                summary['harness_errors'] += 1
                inconc.append({'cell': cid, 'why': 'replay failed to run: %s' % rep['error']})
                say('INCONCLUSIVE cell=%s replay did not run: %s' % (cid, rep['error']))
                continue
            if rep['ok']:
                summary['spurious'] += 1
                summary['inconclusive'] += 1
                inconc.append({'cell': cid, 'why': 'SPURIOUS counterexample (does not reproduce): %r' % (args,)})
                say('SPURIOUS cell=%s args=%r solver-message=%s' % (cid, args, r['message'][:200]))
                continue
            sig = rep['info'].get('sig', 'unclassified')
            entry = next((k for k in known if re.fullmatch(k['cell'], cid) and k['sig'] == sig), None)
            if entry is not None:
                summary['known'] += 1
                knowns.append({'cell': cid, 'sig': sig, 'args': args, 'what': entry['what']})
                say('KNOWN-FINDING: property=%s cell=%s sig=%s %s' % (pid, cid, sig, entry['what']))
                rc = Cell(**{**c.__dict__})
                rc.params = dict(c.params)
                rc.params['accept'] = sorted({k['sig'] for k in known if re.fullmatch(k['cell'], cid)})
                rc.cid = cid + '#residual'
                residual_tasks.append((rc, 'cell', None))
                by_id[rc.cid] = rc
                continue
            path = write_replay(pid, c, args, rep, r)
            summary['violations'] += 1
            viols.append({'cell': cid, 'args': args, 'sig': sig, 'replay': path})
            say('VIOLATION property=%s replay=%s' % (pid, path))
            say('  cell=%s sig=%s args=%r' % (cid, sig, args))
            if rep['info'].get('observed') is not None or rep['error']:
                say('  observed=%r expected=%r error=%s' % (rep['info'].get('observed'),
                                                           rep['info'].get('expected'), rep['error']))

        # --- residual obligations behind known findings -------------------------------
        if residual_tasks:
            pool.run(residual_tasks, on_result)
            for rc, _, _ in residual_tasks:
                r = results[(rc.cid, 'cell')]
                summary['obligations'] += 1
                if r['state'] == 'CONFIRMED' and r['confirmed_paths'] >= 1:
                    summary['discharged'] += 1
                elif r['state'] in ('POST_FAIL', 'EXEC_ERR', 'POST_ERR') and r.get('args') is not None:
                    rep = replay_subprocess(rc, r['args'])
                    if rep['ok'] is False:
                        path = write_replay(pid, rc, r['args'], rep, r)
                        summary['violations'] += 1
                        viols.append({'cell': rc.cid, 'args': r['args'], 'sig': rep['info'].get('sig'),
                                      'replay': path})
                        say('VIOLATION property=%s replay=%s' % (pid, path))
                        say('  cell=%s (differs from the listed known finding) args=%r' % (rc.cid, r['args']))
                    else:
                        summary['inconclusive'] += 1
                        inconc.append({'cell': rc.cid, 'why': 'residual counterexample did not reproduce'})
                        say('SPURIOUS cell=%s args=%r' % (rc.cid, r['args']))
                else:
                    summary['inconclusive'] += 1
                    inconc.append({'cell': rc.cid, 'why': r['state']})
                    say('INCONCLUSIVE cell=%s state=%s' % (rc.cid, r['state']))
    finally:
        pool.close()
        shutil.rmtree(workdir, ignore_errors=True)

    # --- anchors + function profile (concrete; not a solver verdict) -------------------
    for c in cells:
        ex = c.example
        if ex is None:
            continue
        anchors['run'] += 1
        rep = replay_inline(c, ex)
        if rep['ok']:
            # the same documents spelt differently (comments, PIs, CDATA, character references, XML
            # declaration): nothing may depend on the spelling
            rep2 = replay_inline(c, ex, lex=True)
            anchors['lexical_variants'] = anchors.get('lexical_variants', 0) + 1
            if rep2['ok'] is False:
                rep = rep2
                rep['info']['sig'] = 'lexical-variant:' + str(rep['info'].get('sig', 'unclassified'))
            elif rep2['ok'] is None:
                anchors.setdefault('lexical_skipped', []).append(c.cid)
            else:
                # the same example with longer / literal-looking IDs ('None', '0', 'storyID', 120 characters, ...)
                from .cells import id_variant
                ex5 = id_variant(c, ex)
                if ex5 is not None:
                    rep5 = replay_inline(c, ex5)
                    anchors['id_variants'] = anchors.get('id_variants', 0) + 1
                    if rep5['ok'] is False:
                        rep = rep5
                        ex = ex5
                        rep['info']['sig'] = 'id-variant:' + str(rep['info'].get('sig', 'unclassified'))
                # the same scenario on other objects with much later message IDs, then once more as it
                # was: what happened to other objects earlier in the process must not matter
                # the same documents pretty-printed (whitespace text between elements), as many systems send them.
                # Not for the roStorySend payload cells: their oracle fixes the text and tail of every spliced
                # child exactly, and what the whitespace around <storyBody> should become is not stated by C04
                if rep['ok'] and c.harness not in ('h_payload:send_cell',):
                    rep6 = replay_inline(c, ex, indent=True)
                    anchors['indented_variants'] = anchors.get('indented_variants', 0) + 1
                    if rep6['ok'] is False:
                        rep = rep6
                        rep['info']['sig'] = 'indented-documents:' + str(rep['info'].get('sig', 'unclassified'))
                if rep['ok']:
                    replay_inline(c, ex, bump=True)     # history only: its own verdict is not used
                    rep4 = replay_inline(c, ex)
                    anchors['repeat_runs'] = anchors.get('repeat_runs', 0) + 1
                    if rep4['ok'] is False:
                        rep = rep4
                        rep['info']['sig'] = 'after-same-scenario-on-other-objects:' + str(rep['info'].get('sig', 'unclassified'))
        if rep['ok']:
            anchors['passed'] += 1
        else:
            anchors['failed'].append({'cell': c.cid, 'args': ex, 'error': rep['error'],
                                      'sig': rep['info'].get('sig')})
            r = results.get((c.cid, 'cell'), {})
            if rep['ok'] is None:
                summary['harness_errors'] += 1
                say('HARNESS-ERROR cell=%s anchor did not run: %s' % (c.cid, rep['error']))
            elif c.cid not in {v['cell'] for v in viols} and c.cid not in {k['cell'] for k in knowns}:
                # a concrete input through the public API (real parser, real oracle) fails although the
                # symbolic run did not report this cell: the failing input is real, report it - and flag
                # that it was found by the concrete anchor run, not by the solver (modelling gap, e.g. a
                # behaviour that only exists behind the real parser)
                sig = rep['info'].get('sig', 'unclassified')
                entry = next((k for k in known if re.fullmatch(k['cell'], c.cid) and k['sig'] == sig), None)
                if entry is not None:
                    summary['known'] += 1
                    knowns.append({'cell': c.cid, 'sig': sig, 'args': ex, 'what': entry['what'], 'found_by': 'anchor'})
                    say('KNOWN-FINDING: property=%s cell=%s sig=%s %s' % (pid, c.cid, sig, entry['what']))
                else:
                    path = write_replay(pid, c, ex, rep, {'message': 'concrete anchor run (not a solver counterexample)'})
                    summary['violations'] += 1
                    viols.append({'cell': c.cid, 'args': ex, 'sig': sig, 'replay': path, 'found_by': 'anchor'})
                    say('VIOLATION property=%s replay=%s' % (pid, path))
                    say('  cell=%s sig=%s found-by=concrete-anchor (symbolic verdict: %s) args=%r' % (
                        c.cid, sig, r.get('state'), ex))
                    say('  observed=%r expected=%r' % (rep['info'].get('observed'), rep['info'].get('expected')))
        if len(samples) < 12:
            r = results.get((c.cid, 'cell'), {})
            samples.append({'cell': c.cid, 'params': c.params, 'symbolic': [list(x) for x in c.sym],
                            'pre': c.pre, 'example_model': ex, 'verdict': r.get('state'),
                            'paths': r.get('paths')})
    for c in cells[:: max(1, len(cells) // 25)]:
        if c.example is not None:
            functions |= functions_profile(c, c.example)

    tot = lambda k: sum(r.get(k, 0) for r in results.values())
    wall = time.time() - t_start
    bounds = getattr(mod, 'bounds', lambda t: {})(tier)
    evidence = {
        'property_id': pid,
        'tier': tier,
        'seed': seed,
        'level': 'model_checking',
        'wall_s': round(wall, 2),
        'violations': summary['violations'],
        'coverage': {
            'obligations': summary['obligations'],
            'discharged': summary['discharged'],
            'inconclusive': summary['inconclusive'],
            'evaluations': tot('paths'),
            'distinct_nontrivial': tot('nontrivial'),
            'rule': ('one evaluation = one execution path of the real code explored by CrossHair '
                     '(a distinct sequence of solver-decided branch outcomes); a path is non-trivial '
                     'when it satisfied the preconditions and the cell\'s event of interest happened '
                     '(tree mutated / exception raised / warning emitted / value compared). '
                     'A cell is discharged only when its path tree was exhausted (CONFIRMED).'),
            'exhaustive': summary['discharged'] == summary['obligations'],
            'paths_confirmed': tot('confirmed_paths'),
            'solver_queries': tot('queries'),
            'solver_unknown': tot('unknown'),
            'solver_s': round(tot('solver_s'), 2),
            'cpu_s': round(tot('wall_s'), 1),
            'jobs': jobs,
            'bounds': bounds,
            'functions_encoded': sorted(functions),
            'stubs': sorted({s for c in cells for s in c.stubs} | {'logging-disabled'}),
            'anchors': {'run': anchors['run'], 'passed': anchors['passed'],
                        'lexical_variants': anchors.get('lexical_variants', 0),
                        'repeat_runs': anchors.get('repeat_runs', 0),
                        'id_variants': anchors.get('id_variants', 0),
                        'indented_variants': anchors.get('indented_variants', 0),
                        'lexical_variant_errors': anchors.get('lexical_skipped', [])[:20],
                        'failed': anchors['failed'][:20]},
            'known_findings': knowns,
            'violations': viols[:50],
            'inconclusive_cells': inconc[:50],
            'spurious': summary['spurious'],
            'harness_errors': summary['harness_errors'],
            'samples': samples,
            'cells': [{'cell': c.cid, 'state': results.get((c.cid, 'cell'), {}).get('state'),
                       'paths': results.get((c.cid, 'cell'), {}).get('paths'),
                       'queries': results.get((c.cid, 'cell'), {}).get('queries'),
                       's': results.get((c.cid, 'cell'), {}).get('wall_s')} for c in cells],
            'engine': 'CrossHair 0.0.110 + z3 (symbolic execution of /repo/mosromgr byte code)',
        },
        'assumptions': getattr(mod, 'ASSUMPTIONS', []) + [
            'CrossHair\'s models of str/int/list and its path-exhaustion logic; z3',
            'the C Element implementation is executed, not analysed',
            'bounds as listed under coverage.bounds; everything beyond them is outside the claim',
        ],
    }
    # runs against another tree (VERIF_REPO=<scratch worktree>, used for seeded changes) must not
    # overwrite the evidence of /repo itself
    alt = os.environ.get('VERIF_REPO') not in (None, '', '/repo')
    evdir = os.path.join(ROOT, '.work', 'evidence') if alt else os.path.join(ROOT, 'evidence')
    os.makedirs(evdir, exist_ok=True)
    evidence['coverage']['tree_under_test'] = os.environ.get('VERIF_REPO') or '/repo'
    for name in (pid + '.json', '%s.%s.json' % (pid, tier)):
        with open(os.path.join(evdir, name), 'w') as f:
            json.dump(evidence, f, indent=1, default=str)
    say('SUMMARY property=%s tier=%s cells=%d discharged=%d inconclusive=%d known=%d violations=%d '
        'paths=%d queries=%d solver_s=%.1f wall=%.1fs' % (
            pid, tier, summary['obligations'], summary['discharged'], summary['inconclusive'],
            summary['known'], summary['violations'], tot('paths'), tot('queries'), tot('solver_s'), wall))
    if summary['violations']:
        return 1
    if strict and (summary['harness_errors'] or summary['spurious'] or summary['inconclusive']):
        return HARNESS_ERROR_EXIT
    return 0


def write_replay(pid, cell, args, rep, res):
    safe = re.sub(r'[^A-Za-z0-9_.-]+', '_', cell.cid)
    path = os.path.join(ROOT, 'replays', '%s.json' % safe)
    doc = {
        'property': pid,
        'cell': cell_to_json(cell),
        'args': args,
        'solver_message': res.get('message'),
        'documents': rep.get('docs'),
        'observed': rep['info'].get('observed'),
        'expected': rep['info'].get('expected'),
        'sig': rep['info'].get('sig'),
        'error': rep.get('error'),
        'info': rep.get('info'),
        'rerun': './bin/vcheck --replay %s' % os.path.relpath(path, ROOT),
    }
    with open(path, 'w') as f:
        json.dump(doc, f, indent=1, default=str)
    return os.path.relpath(path, ROOT)
