"""C04 - stories, items and metadata carried by a message arrive intact."""
from .cells import Cell, distinct, str_pre
from .h_order import OPS

PID = 'C04'
ASSUMPTIONS = [
    'carried elements hold solver-chosen texts, tails and attribute values (1 printable character each) '
    'in nested children 3 levels deep, mixed text and inline elements; IDs are solver variables',
    'constant hash for symbolic str (stub S2) where stories are listed',
]


def bounds(tier):
    return {'existing_N': '2..3', 'carried_k': '1..2' if tier == 'quick' else '1..3', 'nesting_depth': 3,
            'storySend_body': 'p/i/o sequences of length <= 4, 0..3 elements before and 0..2 after storyBody'}


def pcell(op, N, k, tk='existing', T=60, **extra):
    level, has_t, has_src, has_new = OPS[op]
    P = {'op': op, 'N': N, 'k': k, 'tk': tk}
    P.update(extra)
    sym = [('s%d' % i, 'str') for i in range(N)] + [('n%d' % i, 'str') for i in range(k)]
    strs = [n for n, _ in sym]
    pre = []
    if level == 'item':
        sym += [('p0', 'str'), ('p1', 'str')]
        pre += str_pre(['p0', 'p1']) + ['p0 != p1']
    sym += [('c0', 'str'), ('c1', 'str')]
    pre += str_pre(['c0', 'c1'])
    if has_t and tk == 'existing':
        sym.append(('t', 'int'))
        pre.append('0 <= t < %d' % N)
    if extra.get('dup_new') is not None:
        sym.append(('d', 'int'))
        pre.append('0 <= d < %d' % N)
        if has_t and tk == 'existing':
            pre.append('d != t')
    pre = str_pre(strs) + distinct(strs) + pre
    cid = 'C04/%s/N%d/k%d%s' % (op, N, k, '' if tk == 'existing' or not has_t else '/t-' + tk)
    for key, v in extra.items():
        cid += '/%s%s' % (key, v)
    return Cell(pid=PID, cid=cid, harness='h_payload:payload_cell', params=P, sym=sym, pre=pre,
                stubs=('hash',), timeout=T, cost=N * k)


def scell(N, body, pre_n, post_n, T=60, **extra):
    P = {'N': N, 'body': body, 'pre': pre_n, 'post': post_n}
    P.update(extra)
    sym = [('s%d' % i, 'str') for i in range(N)] + [('c0', 'str'), ('c1', 'str'), ('u0', 'int')]
    strs = ['s%d' % i for i in range(N)]
    pre = str_pre(strs + ['c0', 'c1']) + distinct(strs) + ['0 <= u0 < %d' % N]
    cid = 'C04/roStorySend/N%d/body-%s/pre%d/post%d' % (N, body or 'empty', pre_n, post_n)
    for key, v in extra.items():
        cid += '/%s%s' % (key, v)
    # concrete anchor: texts that still look like markup / entity references after parsing, non-BMP characters
    ex = {'s0': "'", 's1': '"', 's2': ',', 'c0': '&lt;b&gt; AT&amp;T &#233; \U0001F600', 'c1': 'x &amp;#12; y', 'u0': N - 1}
    return Cell(pid=PID, cid=cid, harness='h_payload:send_cell', params=P, sym=sym, pre=pre,
                stubs=('hash',), timeout=T, cost=N, example={k: v for k, v in ex.items() if k in dict(sym)})


def mcell(pid, prop, carry, N=2, T=60, sym_schema=True, **extra):
    P = {'N': N, 'carry': carry, 'prop': prop}
    P.update(extra)
    sym = [('s%d' % i, 'str') for i in range(N)] + [('c0', 'str'), ('c1', 'str')]
    strs = ['s%d' % i for i in range(N)]
    pre = str_pre(strs + ['c0', 'c1']) + distinct(strs)
    if sym_schema:
        sym += [('ma', 'str'), ('mb', 'str'), ('mx', 'str')]
        pre += str_pre(['ma', 'mb', 'mx']) + distinct(['ma', 'mb', 'mx'])
    cid = '%s/roMetadataReplace/%s/%s' % (pid, prop, '+'.join(carry) or 'slug-only')
    for key, v in extra.items():
        cid += '/%s%s' % (key, v)
    return Cell(pid=pid, cid=cid, harness='h_payload:meta_cell', params=P, sym=sym, pre=pre,
                stubs=('hash',), timeout=T, cost=2)


META_CARRIES = ([], ['roEdStart'], ['roChannel'], ['roTrigger'], ['fresh'], ['metaA'], ['metaB'], ['metaX'],
                ['metaA', 'metaB'], ['metaB', 'metaA'], ['metaX', 'metaB'], ['roEdStart', 'metaB', 'fresh'],
                ['metaA', 'metaX', 'roChannel'])


def rcell(pid, N, k, T=60, **extra):
    P = {'N': N, 'k': k}
    P.update(extra)
    sym = [('s%d' % i, 'str') for i in range(N)] + [('n%d' % i, 'str') for i in range(k)] + [('c0', 'str'), ('c1', 'str')]
    strs = ['s%d' % i for i in range(N)] + ['n%d' % i for i in range(k)]
    pre = str_pre(strs + ['c0', 'c1']) + distinct(strs)
    cid = '%s/roReplace/N%d/k%d' % (pid, N, k)
    for key, v in extra.items():
        cid += '/%s%s' % (key, v)
    return Cell(pid=pid, cid=cid, harness='h_payload:replace_cell', params=P, sym=sym, pre=pre,
                stubs=('hash',), timeout=T, cost=2)


def cells(tier):
    T = 60 if tier == 'quick' else 600
    out = []
    ks = (1, 2) if tier == 'quick' else (1, 2, 3)
    for N in (2, 3):
        for k in ks:
            for op in ('roStoryAppend', 'roStoryInsert', 'roStoryReplace', 'EAStoryInsert', 'EAStoryReplace',
                       'roItemInsert', 'roItemReplace', 'EAItemInsert', 'EAItemReplace'):
                if N == 3 and k > 1 and tier == 'quick':
                    continue
                out.append(pcell(op, N, k, T=T))
            for op in ('EAStoryInsert', 'roItemInsert', 'EAItemInsert'):
                out.append(pcell(op, N, k, tk='blank', T=T))
            out.append(pcell('EAStoryInsert', N, k, tk='absent', T=T))
    if tier == 'quick':
        for op in ('roStoryInsert', 'roStoryReplace', 'EAStoryReplace', 'roItemInsert', 'roItemReplace',
                   'EAItemReplace', 'EAItemInsert', 'EAStoryInsert', 'roStoryAppend'):
            out.append(pcell(op, 2, 3, T=T))
    # carried elements whose ID another element of the container already has
    for op in ('roStoryReplace', 'EAStoryReplace', 'roItemInsert', 'roItemReplace', 'EAItemInsert', 'EAItemReplace'):
        out.append(pcell(op, 3, 1, T=T, dup_new=0))
        out.append(pcell(op, 3, 2, T=T, dup_new=1))
    # carried elements whose ID tag is blank: they arrive exactly as sent
    for op in ('roStoryAppend', 'roStoryInsert', 'roStoryReplace', 'EAStoryInsert', 'EAStoryReplace',
               'roItemInsert', 'roItemReplace', 'EAItemInsert', 'EAItemReplace'):
        out.append(pcell(op, 2, 1, T=T, blank_new=0))
        out.append(pcell(op, 2, 2, T=T, blank_new=1))
    # the same from a state reached through a roReplace
    for op in ('roStoryInsert', 'roStoryReplace', 'EAStoryReplace', 'roItemInsert', 'roItemReplace', 'EAItemReplace',
               'EAItemInsert', 'EAStoryInsert', 'roStoryAppend'):
        out.append(pcell(op, 2, 2, T=T, prehist=True))
    out.append(scell(3, 'pi', 1, 1, T=T, prehist=True))
    out.append(pcell('roStoryInsert', 3, 1, gap=0, trail=1, T=T))
    out.append(pcell('roStoryReplace', 3, 2, gap=1, trail=1, T=T))
    for body in ('', 'p', 'i', 'pi', 'ip', 'pipo', 'oipi', 'iii', 'ppp'):
        for pre_n, post_n in ((0, 0), (2, 0), (0, 2), (3, 2)) if tier == 'thorough' or body in ('pi', 'oipi', '') \
                else ((1, 1),):
            out.append(scell(3, body, pre_n, post_n, T=T))
    out.append(scell(2, 'pi', 3, 1, T=T, gap=0, trail=1))
    # paragraphs with mixed content (inline elements without tails) keep every text and tail they were sent with
    for body in ('m', 'mim', 'pmi'):
        out.append(scell(3, body, 1, 1, T=T))
    for carry in META_CARRIES:
        out.append(mcell(PID, 'payload', carry, T=T))
    out.append(mcell(PID, 'payload', ['metaB'], T=T, n_meta=1))
    out.append(mcell(PID, 'payload', ['metaX'], T=T, story_schema='X'))
    out.append(mcell(PID, 'payload', ['metaNone'], T=T))
    out.append(mcell(PID, 'payload', ['metaA', 'metaB', 'metaX'], T=T))
    out.append(mcell(PID, 'payload', ['metaA'], T=T, story_schema='A', meta_split=True))
    out.append(mcell(PID, 'payload', ['metaA'], T=T, n_meta=0))
    out.append(mcell(PID, 'payload', ['metaB', 'roEdStart'], T=T, meta_split=True))
    for N, k in ((2, 1), (2, 2), (3, 0), (1, 3)):
        out.append(rcell(PID, N, k, T=T))
    out.append(rcell(PID, 2, 2, T=T, repeat_id=True))
    out.append(rcell(PID, 2, 2, T=T, base_attrs=True))
    out.append(rcell(PID, 1, 1, T=T, repeat_id=True))
    # roMetadataReplace into a running order without stories
    from .p_c04 import mcell as _mcell
    for carry in ([], ['fresh'], ['metaX'], ['roEdStart', 'metaA']):
        out.append(_mcell(PID, 'payload', carry, N=0, T=60 if tier == 'quick' else 600, gap=None))
    return out
