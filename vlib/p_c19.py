"""C19 - the command line reports and writes exactly what the library computes."""
from .cells import Cell
from .h_collect import FILE_KINDS, SCENARIOS

PID = 'C19'
ASSUMPTIONS = [
    'mosromgr.cli.main(argv) is executed with the parser stub S4 (virtual files: every message class, a completed '
    'running order, unknown XML, malformed XML, missing path, directory), print recorders for stdout, a StringIO '
    'stderr and an in-memory open() for -o (stub S7); replays use real temporary files',
    'the solver\'s share is the choice of file kinds and flags (finite, exhausted by forking); the value is that '
    'the command bodies, which no test executes on mixed lists, run over the whole choice space',
    'S3 options of detect/inspect and argparse usage errors (SystemExit) are outside; merge -b/-p/-s runs against the fake S3',
]


def bounds(tier):
    return {'files_per_detect_inspect': 2 if tier == 'quick' else 3, 'file_kinds': FILE_KINDS,
            'merge_scenarios': sorted(SCENARIOS), 'flags': ['--incomplete', '--non-strict', '-o']}


def cells(tier):
    T = 120 if tier == 'quick' else 900
    out = []
    n = 2 if tier == 'quick' else 3
    K = len(FILE_KINDS)
    for cmd in ('detect', 'inspect'):
        # first file kind is a cell parameter (parallelism), the others are solver-chosen
        for k0 in range(K):
            sym = [('k%d' % i, 'int') for i in range(n)]
            pre = ['k0 == %d' % k0] + ['0 <= k%d < %d' % (i, K) for i in range(1, n)]
            # the concrete anchor of each cell puts a non-UTF-8 / unreadable file next to the first one
            ex = {'k%d' % i: [k0, FILE_KINDS.index('latin1-roStoryDelete'), FILE_KINDS.index('binary-junk')][i] for i in range(n)}
            if k0 % 3 == 1:
                ex['k1'] = FILE_KINDS.index('binary-junk')
            if k0 % 3 == 2:
                ex['k1'] = FILE_KINDS.index('directory')
            out.append(Cell(pid=PID, cid='C19/%s/first-%s/n%d' % (cmd, FILE_KINDS[k0], n), harness='h_collect:cli_list_cell',
                            params={'cmd': cmd, 'n': n}, sym=sym, pre=pre, stubs=('hash',), timeout=T, cost=K ** (n - 1),
                            example=ex))
    # two invocations in one process on a path whose content changed in between
    for cmd in ('detect', 'inspect'):
        for k0 in (0, 2, 3, 9, 10):
            sym = [('k0', 'int'), ('k1', 'int')]
            pre = ['k0 == %d' % k0, '0 <= k1 < %d' % K, 'k1 != k0', 'k1 != 11']
            out.append(Cell(pid=PID, cid='C19/%s-twice/first-%s' % (cmd, FILE_KINDS[k0]), harness='h_collect:cli_twice_cell',
                            params={'cmd': cmd}, sym=sym, pre=pre, stubs=('hash',), timeout=T, cost=K))
    for scen in SCENARIOS:
        for outmode in ('stdout', 'file'):
            out.append(Cell(pid=PID, cid='C19/merge/%s/%s' % (scen, outmode), harness='h_collect:cli_merge_cell',
                            params={'scenario': scen, 'out': outmode}, sym=[('inc', 'bool'), ('ns', 'bool')], pre=[],
                            stubs=('hash',), timeout=T, cost=4))
    # S3 merges: default suffix, explicit suffix, a non-.mos.xml object under the prefix
    for scen, draft, suffix in (('complete', None, None), ('complete', 1, None), ('complete', 1, '.xml'), ('incomplete', 2, None),
                                ('failing', None, '.mos.xml')):
        out.append(Cell(pid=PID, cid='C19/merge-s3/%s/draft-%s/suffix-%s' % (scen, draft, suffix or 'default'),
                        harness='h_collect:cli_merge_cell', params={'scenario': scen, 's3': True, 'draft': draft, 'suffix': suffix},
                        sym=[('inc', 'bool'), ('ns', 'bool')], pre=[], stubs=('hash',), timeout=T, cost=4))
    for scen in ('complete', 'incomplete', 'failing', 'reversed', 'after-delete'):
        out.append(Cell(pid=PID, cid='C19/merge/%s/output-replaces-the-first-input' % scen, harness='h_collect:cli_merge_cell',
                        params={'scenario': scen, 'out': 'over-input'}, sym=[('inc', 'bool'), ('ns', 'bool')], pre=[],
                        stubs=('hash',), timeout=T, cost=4))
    out.append(Cell(pid=PID, cid='C19/merge/complete/bad-dir', harness='h_collect:cli_merge_cell',
                    params={'scenario': 'complete', 'out': 'bad-dir'}, sym=[('inc', 'bool'), ('ns', 'bool')], pre=[],
                    stubs=('hash',), timeout=T, cost=4))
    return out
