"""C16 - durations, offsets, start and end times are arithmetically consistent."""
import itertools
from .cells import Cell, distinct, str_pre
from .h_access import VARIANTS

PID = 'C16'
ASSUMPTIONS = [
    'durations are integers 0..100000 (seconds) entering as solver variables through the number-parsing '
    'stub S3 (float() of an integer is exact, so the integer claim is a claim about the float code); '
    'non-integer durations and float("3.5")-style parsing are exercised by replays/anchors only',
    'timestamps are concrete ISO strings chosen from a list of 3 (stub S10); arithmetic on the '
    'resulting datetimes is symbolic',
    'constant hash for symbolic story IDs (stub S2): story offsets are keyed by story ID',
]
TWINS = True


def bounds(tier):
    return {'stories_N': '1..3' if tier == 'quick' else '1..4', 'durations': 'integers 0..100000 (3-story cells with roEdStart: 0..10000 in the quick tier)',
            'timing_variants': sorted(VARIANTS), 'stamps': 3}


def mk(variants, started=None, ended=None, edstart='present', pre_op=False, T=60, tag='', dmax=100000, resend=None,
       blank_id=None, example=None, unique=True, meta_last=False, restart=None, edstamp=0, payload_order=None, dmin=0):
    N = len(variants)
    P = {'N': N, 'variants': list(variants), 'started': started, 'ended': ended, 'edstart': edstart,
         'pre_op': pre_op, 'resend': resend, 'blank_id': blank_id, 'meta_last': meta_last, 'restart': restart, 'edstamp': edstamp, 'payload_order': payload_order}
    sym = [('s%d' % i, 'str') for i in range(N)]
    strs = [n for n, _ in sym]
    # story IDs need not be unique (roStoryAppend does not de-duplicate): in the 'dup-ids' cells the solver may
    # make them coincide, and every relation is about positions, not IDs
    pre = str_pre(strs) + (distinct(strs) if unique else [])
    for i, v in enumerate(variants):
        has = VARIANTS[v]
        for flag, name in zip(has, ('sd', 'tt', 'mt')):
            if flag:
                sym.append(('%s%d' % (name, i), 'int'))
                pre.append('%d <= %s%d <= %d' % (dmin, name, i, dmax))
    cid = 'C16/%s/ed-%s' % (','.join(variants), edstart)
    if started and any(x is not None for x in started):
        cid += '/started-' + ''.join('-' if x is None else str(x) for x in started)
    if ended and any(x is not None for x in ended):
        cid += '/ended-' + ''.join('-' if x is None else str(x) for x in ended)
    if resend is not None:
        sym.append(('nd', 'int'))
        pre.append('0 <= nd <= %d' % dmax)
        cid += '/then-resend-%d' % resend
    if pre_op:
        cid += '/after-swap'
    if dmax != 100000:
        cid += '/dmax%d' % dmax
    if tag:
        cid += '/' + tag
    if blank_id is not None:
        cid += '/blank-storyID-%d' % blank_id
    if not unique:
        cid += '/dup-ids'
    if meta_last:
        cid += '/story-metadata-after-items'
    if restart is not None:
        cid += '/then-new-roEdStart'
    if edstamp:
        cid += '/roEdStart-with-zone'
    if payload_order:
        cid += '/payload-children-' + payload_order
    if dmin:
        cid += '/dmin%d' % dmin
    # concrete anchors use FRACTIONAL durations (the symbolic run uses exact integers, stub S3): the real float()
    # parsing of "12.5"-style texts is exercised here
    ex = example
    if ex is None:
        ex = {n: 'abcdefgh'[i] for i, (n, t) in enumerate(sym) if t == 'str'}
        fr = [12.5, '2.5e1', 7.75, '.5', 1.125, '+3', '6.', 99.875, ' 7 ', '1E2', 0.25, '007']
        off = sum(map(ord, cid)) % len(fr)       # different cells start at different spellings
        for i, (n, t) in enumerate([x for x in sym if x[1] == 'int']):
            ex[n] = fr[(off + i) % len(fr)]
    return Cell(pid=PID, cid=cid, harness='h_access:timing_cell', params=P, sym=sym, pre=pre,
                stubs=('hash', 'float', 'parse'), timeout=T, cost=len(sym), example=ex)


def cells(tier):
    T = 60 if tier == 'quick' else 600
    out = []
    V = ['SD', 'TT', 'MT', 'TT+MT', 'SD+TT+MT', 'none']
    # one story: every variant, with / without roEdStart
    for v in V + ['SD+TT', 'block-empty']:
        for ed in ('present', 'absent', 'blank'):
            out.append(mk([v], edstart=ed, T=T))
    # two stories: all pairs of variants
    for a, b in itertools.product(V, V):
        out.append(mk([a, b], T=T))
    # three stories: covering set (each variant in each position, mixed presence)
    triples = [('SD', 'TT+MT', 'SD+TT+MT'), ('TT', 'MT', 'SD'), ('MT', 'SD', 'TT'), ('TT+MT', 'SD+TT+MT', 'MT'),
               ('SD+TT+MT', 'TT', 'TT+MT'), ('SD', 'none', 'SD'), ('none', 'SD', 'TT'), ('SD', 'TT', 'none'),
               ('none', 'none', 'none')]
    for tr in triples:
        # three stories with roEdStart: durations up to 10000 s keep the symbolic datetimes within one
        # day (each day carry forks the datetime model); the full range runs in the thorough tier
        out.append(mk(list(tr), T=T, dmax=100000 if tier == 'thorough' else 10000))
    if tier == 'thorough':
        # every combination of timing variants over three stories (durations up to 10000 s)
        for tr in itertools.product(V, V, V):
            if tr not in triples:
                out.append(mk(list(tr), T=T, dmax=10000))
    # explicit StoryStarted / StoryEnded on subsets
    for started, ended in (([1, None], None), ([None, 1], None), (None, [2, None]), (None, [None, 2]),
                           ([1, None], [None, 2]), ([1, 1], [2, 2])):
        for ed in ('present', 'absent'):
            out.append(mk(['SD', 'TT+MT'], started=started, ended=ended, edstart=ed, T=T))
    out.append(mk(['none', 'SD'], started=[1, None], T=T))
    out.append(mk(['SD', 'none'], ended=[None, 2], T=T))
    for ed in ('absent', 'blank'):
        out.append(mk(['SD', 'TT', 'MT'], edstart=ed, T=T))
    # a story whose storyID tag is blank is still a story with a duration, an offset, a start and an end
    out.append(mk(['SD', 'TT+MT', 'SD'], blank_id=1, T=T, dmax=10000))
    out.append(mk(['SD', 'MT'], blank_id=1, T=T))
    out.append(mk(['TT', 'SD'], blank_id=0, edstart='absent', T=T))
    out.append(mk(['SD', 'TT+MT'], unique=False, T=T))
    out.append(mk(['SD', 'MT', 'TT'], unique=False, T=T, dmax=10000))
    out.append(mk(['SD', 'SD'], unique=False, edstart='absent', started=[1, None], T=T))
    # story metadata after an item that carries its own payload; roEdStart after the stories; a new roEdStart
    # supplied by roMetadataReplace after the stories were read
    for started, ended in ((None, None), ([1, None], None), (None, [None, 2]), ([None, 1], [2, None])):
        out.append(mk(['SD', 'TT+MT'], started=started, ended=ended, meta_last=True, T=T))
    out.append(mk(['SD', 'MT', 'TT'], meta_last=True, T=T, dmax=10000))
    for v in (['SD'], ['SD', 'TT+MT'], ['none', 'SD']):
        out.append(mk(v, edstart='after', T=T))
    out.append(mk(['SD', 'TT'], edstart='after', started=[None, 1], T=T))
    out.append(mk(['SD', 'TT+MT'], restart=2, T=T))
    out.append(mk(['SD', 'MT'], restart=2, edstart='absent', T=T))
    out.append(mk(['SD', 'SD'], restart=2, started=[1, None], ended=[None, 2], T=T))
    # zone designators: aware roEdStart with naive story stamps, naive roEdStart with aware story stamps, both aware
    out.append(mk(['SD', 'TT+MT'], edstamp=3, T=T))
    out.append(mk(['SD', 'TT+MT'], started=[1, None], ended=[None, 2], edstamp=3, T=T))
    out.append(mk(['SD', 'MT'], started=[None, 4], ended=[3, None], T=T))
    out.append(mk(['TT', 'SD'], started=[4, None], ended=[None, 4], edstamp=3, T=T))
    out.append(mk(['SD', 'MT'], restart=4, started=[1, None], T=T))
    out.append(mk(['SD', 'SD', 'TT'], edstamp=3, T=T, dmax=10000))
    # the children of the timing payload in the opposite order (StoryDuration last)
    out.append(mk(['SD+TT+MT'], payload_order='reversed', T=T))
    out.append(mk(['SD+TT+MT', 'TT+MT'], payload_order='reversed', started=[1, None], ended=[None, 2], T=T))
    out.append(mk(['SD+TT', 'SD+TT+MT', 'MT'], payload_order='reversed', T=T, dmax=10000))
    # negative numbers are numbers: a negative duration (e.g. -1 for 'not timed yet') enters every sum as it is
    out.append(mk(['SD', 'SD'], dmin=-1000, T=T))
    out.append(mk(['TT+MT', 'SD', 'MT'], dmin=-1000, T=T, dmax=10000))
    out.append(mk(['SD', 'TT+MT'], dmin=-1000, edstart='absent', T=T))
    # no story at all (roCreate without stories, or every story deleted): the sum of nothing is 0
    for ed in ('present', 'absent'):
        out.append(mk([], edstart=ed, T=T))
    # after a reordering merge the relations hold again
    out.append(mk(['SD', 'TT+MT', 'SD+TT+MT'], pre_op=True, T=T, dmax=100000 if tier == 'thorough' else 10000))
    out.append(mk(['SD', 'MT'], pre_op=True, started=[1, None], T=T))
    # read, re-send a story with a different duration (same ID and position), read again
    dm = 10000     # (full range: no path tree of these 3-story histories exhausts within 600 s)
    out.append(mk(['SD', 'TT+MT', 'SD'], resend=0, T=T, dmax=dm))
    out.append(mk(['TT', 'SD', 'MT'], resend=1, T=T, dmax=dm))
    out.append(mk(['SD', 'SD'], resend=1, T=T, dmax=dm))
    out.append(mk(['SD', 'none', 'SD'], resend=1, T=T, dmax=dm))
    out.append(mk(['MT', 'SD'], resend=0, started=[None, 1], edstart='absent', T=T))
    if tier == 'thorough':
        for quad in (('SD', 'TT', 'MT', 'TT+MT'), ('SD+TT+MT', 'SD', 'SD', 'TT'), ('SD', 'SD', 'none', 'SD')):
            out.append(mk(list(quad), T=T))
    return out
