"""C02 - item order inside the addressed story follows the MOS protocol."""
from .p_c01 import mk as _mk

PID = 'C02'
ASSUMPTIONS = [
    'the addressed story holds N items with pairwise distinct 1-character printable IDs; a second '
    'story holds items with the SAME IDs in reverse order (item IDs may repeat across stories); '
    'one paragraph sits at a solver-chosen gap between the items, optional leading/trailing paragraphs',
    'logging disabled (stub S1); constant hash for symbolic str (stub S2)',
]


def bounds(tier):
    return {'items_N': '1..4' if tier == 'quick' else '1..8', 'sources_k': '<=2' if tier == 'quick' else '<=3',
            'id_length': 1, 'id_alphabet': 'U+0020..U+007E', 'stories': 2,
            'layout': 'storyID[, storySlug][, p] items with one <p> at a symbolic gap [, trailing p]; '
                      'addressed story first or second',
            'per_cell_timeout_s': 60 if tier == 'quick' else 600}


def mk(op, N, **kw):
    return _mk(op, N, pid='C02', level='item', **kw)


def cells(tier):
    T = 60 if tier == 'quick' else 600
    out = []
    Ns = (3,) if tier == 'quick' else (3, 5)
    kk = (1, 2) if tier == 'quick' else (1, 2, 3)
    for N in Ns:
        for op in ('roItemInsert', 'EAItemInsert'):
            for k in kk:
                out.append(mk(op, N, k=k, timeout=T))
                out.append(mk(op, N, k=k, tk='blank', trail=1, rname='to-end', timeout=T))
        for op in ('roItemReplace', 'EAItemReplace'):
            for k in kk:
                out.append(mk(op, N, k=k, timeout=T))
        if tier == 'quick':
            # carried elements do not fork: three of them are as cheap as two
            for op in ('roItemReplace', 'EAItemReplace', 'roItemInsert', 'EAItemInsert'):
                out.append(mk(op, N, k=3, gap=None, timeout=T))
        for op in ('roItemDelete', 'EAItemDelete'):
            for k in kk:
                out.append(mk(op, N, k=k, timeout=T))
        for op in ('roItemMoveMultiple', 'EAItemMove'):
            for rname, region in (('src-before-ref', 'u0 < t'), ('src-after-ref', 'u0 > t')):
                out.append(mk(op, N, region=region, rname=rname, timeout=T))
            out.append(mk(op, N, tk='blank', rname='to-end', trail=1, timeout=T))
            for k in kk[1:]:
                if N > k:
                    out.append(mk(op, N, k=k, rname='multi', timeout=T))
                out.append(mk(op, N, k=k, tk='blank', rname='multi-to-end', timeout=T))
        out.append(mk('EAItemSwap', N, k=2, region='u0 < u1', rname='doc-order', timeout=T))
        out.append(mk('EAItemSwap', N, k=2, region='u0 > u1', rname='reverse-order', timeout=T))
    if tier == 'quick':
        for op in ('roItemMoveMultiple', 'EAItemMove'):
            out.append(mk(op, 4, gap=None, timeout=T))
            out.append(mk(op, 4, k=2, gap=None, rname='multi', timeout=T))
        out.append(mk('EAItemSwap', 4, k=2, gap=None, timeout=T))
    else:
        # thorough: six to eight items for the position-sensitive types (no paragraph between them)
        for n_ in (6, 7, 8):
            for op in ('roItemMoveMultiple', 'EAItemMove'):
                out.append(mk(op, n_, gap=None, timeout=T))
                out.append(mk(op, n_, k=2, gap=None, rname='multi', timeout=T))
            out.append(mk('EAItemSwap', n_, k=2, gap=None, timeout=T))
            out.append(mk('roItemReplace', n_, k=2, gap=None, timeout=T))
            out.append(mk('EAItemDelete', n_, k=2, gap=None, timeout=T))
        out.append(mk('EAItemMove', 6, k=3, gap=None, rname='multi', timeout=T))
    # the usual replacement: a new version of the replaced item under its own ID, alone or among others
    for op in ('roItemReplace', 'EAItemReplace'):
        for k, j in ((1, 0), (2, 0), (2, 1), (3, 0), (3, 1), (3, 2)):
            out.append(mk(op, 3, k=k, same=j, gap=None, timeout=T))
    # IDs of one or two characters: one ID may be a prefix or suffix of another
    for op, kw in (('roItemMoveMultiple', {'k': 2}), ('EAItemMove', {}), ('roItemDelete', {'k': 2}), ('roItemReplace', {}),
                   ('EAItemSwap', {'k': 2}), ('roItemInsert', {})):
        out.append(mk(op, 3, gap=None, idlen='1-2', rname='prefix-ids', timeout=T, **kw))
    # the same from a state reached through a roReplace
    for op, kw in (('roItemMoveMultiple', {'k': 2}), ('EAItemMove', {}), ('roItemDelete', {}), ('roItemReplace', {}),
                   ('EAItemSwap', {'k': 2}), ('roItemInsert', {}), ('EAItemInsert', {'tk': 'blank'}), ('EAItemDelete', {'k': 2}),
                   ('EAItemReplace', {})):
        out.append(mk(op, 3, gap=None, rname='any', timeout=T, extra={'prehist': True}, **kw))
    # the same after a series of refused messages (what a non-strict collection merge leaves behind)
    for op, kw in (('roItemMoveMultiple', {'k': 2}), ('EAItemMove', {}), ('EAItemMove', {'k': 2, 'tk': 'blank'}), ('roItemDelete', {}),
                   ('roItemReplace', {}), ('EAItemSwap', {'k': 2}), ('roItemInsert', {}), ('EAItemInsert', {'tk': 'blank'}),
                   ('EAItemDelete', {'k': 2}), ('EAItemReplace', {})):
        out.append(mk(op, 3, gap=None, rname='any', timeout=T, extra={'prefail': True}, **kw))
    # the same when the stories were re-sent by a roStorySend before (stories built by StorySend: roID first)
    for op, kw in (('roItemMoveMultiple', {'k': 2}), ('EAItemMove', {}), ('roItemDelete', {}), ('roItemReplace', {}),
                   ('EAItemSwap', {'k': 2}), ('roItemInsert', {}), ('EAItemInsert', {'tk': 'blank'}), ('EAItemDelete', {'k': 2}),
                   ('EAItemReplace', {})):
        out.append(mk(op, 3, gap=None, rname='any', timeout=T, extra={'presend': True}, **kw))
    # the story next door carries timing metadata that is free text
    for op, kw in (('roItemMoveMultiple', {}), ('EAItemMove', {}), ('roItemDelete', {}), ('roItemReplace', {}), ('EAItemSwap', {'k': 2}),
                   ('roItemInsert', {}), ('EAItemInsert', {}), ('EAItemDelete', {}), ('EAItemReplace', {})):
        out.append(mk(op, 3, gap=None, rname='any', timeout=T, extra={'odd_timing': True}, **kw))
    # the smallest shapes: a single item; every item of the story named as a source
    for op, kw in (('roItemMoveMultiple', {'tk': 'blank'}), ('EAItemMove', {'tk': 'blank'}), ('roItemDelete', {}), ('EAItemDelete', {}),
                   ('roItemReplace', {'k': 2}), ('EAItemReplace', {}), ('roItemInsert', {}), ('EAItemInsert', {'tk': 'blank'})):
        out.append(mk(op, 1, gap=None, rname='single-item', timeout=T, **kw))
        out.append(mk(op, 1, gap=None, lead=1, rname='single-item', timeout=T, **kw))
    for op, kw in (('roItemMoveMultiple', {'k': 2, 'tk': 'blank'}), ('EAItemMove', {'k': 2, 'tk': 'blank'}), ('roItemDelete', {'k': 2}),
                   ('EAItemDelete', {'k': 2}), ('EAItemSwap', {'k': 2})):
        out.append(mk(op, 2, gap=None, rname='all-items-named', timeout=T, **kw))
        out.append(mk(op, 2, gap=None, lead=1, rname='all-items-named', timeout=T, **kw))
    # addressed story is the second one; story without slug / with leading paragraph
    for op in ('roItemMoveMultiple', 'EAItemMove', 'roItemInsert', 'roItemReplace', 'roItemDelete', 'EAItemDelete'):
        out.append(mk(op, 3, w=1, gap=None, rname='second-story', timeout=T))
    for op in ('roItemMoveMultiple', 'EAItemMove', 'roItemInsert', 'EAItemInsert', 'EAItemSwap'):
        k = 2 if op == 'EAItemSwap' else 1
        out.append(mk(op, 3, k=k, lead=3, gap=None, rname='lead3', timeout=T))
        out.append(mk(op, 3, k=k, lead=1, gap=None, rname='lead1', timeout=T))
    # conservation under unresolvable / degenerate operands
    for op in ('roItemMoveMultiple', 'EAItemMove'):
        for sk, tk in ((['unknown'], 'existing'), (['existing'], 'unknown'), (['blank'], 'existing'),
                       (['existing'], 'source')):
            out.append(mk(op, 3, harness='conserve_cell', sk=sk, tk=tk, rname='conserve', gap=None, timeout=T))
        for sk in (['existing', 'unknown'], ['existing', 'same'], ['unknown', 'existing'], ['existing', 'blank']):
            out.append(mk(op, 3, k=2, harness='conserve_cell', sk=sk, tk='existing', rname='conserve',
                          gap=None, timeout=T))
    for sk in (['existing', 'same'], ['existing', 'unknown'], ['unknown', 'existing'], ['existing', 'blank'],
               ['blank', 'existing']):
        out.append(mk('EAItemSwap', 3, k=2, harness='conserve_cell', sk=sk, tk=None, rname='conserve',
                      gap=None, timeout=T))
    return out
