"""C04 (carried payload arrives intact), and the non-positional message types for C03/C04/C07/C14:
roStorySend conversion, roReplace, roMetadataReplace, roDelete, roReadyToAir."""
from mosromgr.exc import MosCompletedMergeError, MosMergeError

from . import build as B
from . import msgs as M
from .build import E, T
from .h_merge import envelope_ok, frame_ok
from .h_order import OPS, build_message, idx_of, keys, model


# vendor payloads use XML namespaces: two elements that differ only in their namespace travel with the payload
NS_DC, NS_V = '{http://purl.org/dc/elements/1.1/}', '{urn:x-vendor:gfx}'


def rich_item(iid, c0, c1, deep=True):
    return E('item', T('itemID', iid), T('itemSlug', c0),
             E('mosExternalMetadata', T('mosSchema', 's'), E('mosPayload', E('a', E('b', T('c', c1), T(NS_DC + 'c', c0), T(NS_V + 'c', c1), k=c1), tail=c0))
               if deep else None),
             T('objID', c1), **{'x': c1})


def rich_story(sid, c0, c1, n_items=2):
    body = [T('p', c0)]
    for j in range(n_items):
        body.append(rich_item('ci%d' % j, c0, c1))
        body.append(E('p', E('em', text='inline', tail=c1), text=c0))
    # elements of the roStorySend vocabulary inside an ordinary carried story are content like any other
    body.append(E('storyItem', T('itemID', 'si'), T('itemSlug', c1)))
    return E('story', T('storyID', sid), T('storySlug', c0), B.timing_block(dur='12'), *body, **{'attr': c1})


def payload_cell(P, A):
    """C04: every carried story/item appears in the running order, at the place C01/C02 prescribe,
    with exactly the content that was sent (snapshot of the message element before the merge)."""
    op = P['op']
    level, has_t, has_src, has_new = OPS[op]
    N, k = P['N'], P['k']
    ids = [A['s%d' % i] for i in range(N)]
    c0, c1 = A['c0'], A['c1']
    new_ids = [A['n%d' % i] for i in range(k)]
    dec_ids = (new_ids[0], new_ids[-1])
    if P.get('blank_new') is not None:
        new_ids[P['blank_new']] = None        # a carried element whose ID tag is blank arrives like that
    if P.get('dup_new') is not None:
        # a carried element whose ID another element of the container already has (replacements and item inserts
        # do not de-duplicate): it arrives all the same
        new_ids[P['dup_new']] = ids[A['d']]
    if level == 'story':
        stories = [B.story(s, slug='ss', timing=B.timing_block(dur='10'),
                           body=[T('p', 'x'), B.item('I', extra=B.decoys(*dec_ids))])
                   for s in ids]
        ro = B.running_order(stories, lead=2, gap=P.get('gap'), trail=P.get('trail', 0))
        if P.get('prehist'):
            B.prehist_replace(ro)
        cont = B.rc_of(ro)
        carried = [rich_story(n, c0, c1) for n in new_ids]
        addr = None
    else:
        addr = A['p0']
        st = B.story(addr, slug='ss', timing=B.timing_block(dur='10'),
                     body=[B.item(i, slug='old') for i in ids] + [T('p', 'tail')])
        other = B.story(A['p1'], slug='so', timing=B.timing_block(dur='10'), body=[B.item(i) for i in ids])
        ro = B.running_order([st, other], lead=2)
        if P.get('prehist'):
            B.prehist_replace(ro)
        cont = [s for s in B.rc_of(ro).findall('story') if B.same_obj(s.find('storyID').text, addr)][0]
        carried = [rich_item(n, c0, c1) for n in new_ids]
    tk = P.get('tk', 'existing')
    t = A.get('t') if has_t and tk == 'existing' else None
    tgt = {'existing': ids[t] if t is not None else None, 'blank': None, 'absent': M.ABSENT}[tk] if has_t else None
    # build the message around the carried elements themselves
    msg = build_with(op, tgt, carried, addr)
    base = msg.base_tag
    src_parent = base.find('element_source') if base.find('element_source') is not None else base
    sent = [B.snap(e) for e in (src_parent.findall('story') if level == 'story' else src_parent.findall('item'))]
    before = keys(level, cont)
    out = B.merge(ro, msg)
    B.hit()
    sig = None
    if out.raised:
        sig = 'raised-' + type(out.exc).__name__
    else:
        after = keys(level, cont)
        exp = model(op, before, t, [], new_ids)
        if after != exp:
            sig = 'wrong-position'
        else:
            kids = cont.findall('story') if level == 'story' else cont.findall('item')
            kind_ = op.replace('EA', '').replace('ro', '').replace('Story', '').replace('Item', '')
            start = len(before) if (kind_ == 'Append' or t is None) else t      # where the carried elements begin
            for j, s in enumerate(sent):
                el = kids[start + j]
                if B.snap(el) != s:
                    sig = 'carried-content-altered'
                    break
    if B.Ctx.replay:
        B.note(sig=sig, observed=B.conc(out.exc) if out.raised else keys(level, cont), expected='carried elements intact')
    return sig is None


def build_with(op, tgt, carried, addr):
    if op == 'roStoryAppend':
        return M.story_append(carried)
    if op == 'roStoryInsert':
        return M.story_insert(tgt, carried)
    if op == 'roStoryReplace':
        return M.story_replace(tgt, carried)
    if op == 'EAStoryInsert':
        return M.ea_story_insert(tgt, carried)
    if op == 'EAStoryReplace':
        return M.ea_story_replace(tgt, carried)
    if op == 'roItemInsert':
        return M.item_insert(addr, tgt, carried)
    if op == 'roItemReplace':
        return M.item_replace(addr, tgt, carried)
    if op == 'EAItemInsert':
        return M.ea_item_insert(addr, tgt, carried)
    if op == 'EAItemReplace':
        return M.ea_item_replace(addr, tgt, carried)
    raise ValueError(op)


# ---------------------------------------------------------------------------------------
# roStorySend
# ---------------------------------------------------------------------------------------

def send_cell(P, A):
    """C04: the sent story arrives as the roStorySend children with storyBody replaced in place by
    its children (original order) and storyItem renamed item.  P['pre']/P['post']: number of
    elements before/after storyBody; P['body']: string over {p, i, o} for the body children."""
    N = P['N']
    ids = [A['s%d' % i] for i in range(N)]
    u = A['u0']
    c0, c1 = A['c0'], A['c1']
    stories = [B.story(s, slug='ss', timing=B.timing_block(dur='10'), body=[T('p', 'x'), B.item('I')]) for s in ids]
    ro = B.running_order(stories, lead=2, gap=P.get('gap'), trail=P.get('trail', 0))
    if P.get('prehist'):
        B.prehist_replace(ro)
    body, exp_body = [], []
    for j, ch in enumerate(P['body']):
        if ch == 'p':
            body.append(E('p', text=c0, tail=c1))
            exp_body.append(('p', (), c0, c1, ()))
        elif ch == 'm':
            # mixed content: inline empty elements without any tail, one with a blank tail, text around them
            m_ = E('p', E('tab'), E('tab'), E('em', text=c1, tail=' '), E('pi'), text=c0)
            body.append(m_)
            exp_body.append(B.snap(m_))
        elif ch == 'i':
            it = rich_item('si%d' % j, c0, c1)
            exp = B.snap(it)
            it.tag = 'storyItem'
            body.append(it)
            exp_body.append(('item',) + exp[1:])
        else:
            o = E('storyPresenter', T('name', c1), k=c0)
            body.append(o)
            exp_body.append(B.snap(o))
    pre = [T('storyNum', c0), B.timing_block(dur='9'), E('x', T('storyItem', 'not-a-body-item'))][:P.get('pre', 0)]
    post = [E('mosExternalMetadata', T('mosSchema', c1), E('mosPayload', T('Approved', c0))),
            T('storyTrailer', c1)][:P.get('post', 0)]
    msg = M.story_send(ids[u], body=body, slug=c0, pre=pre, post=post)
    base = msg.base_tag
    msg_before = B.snap(msg.xml)
    heads = [B.snap(e) for e in base if e.tag != 'storyBody']
    n_head = 0
    for e in base:
        if e.tag == 'storyBody':
            break
        n_head += 1
    expected = ('story', tuple(sorted(base.attrib.items())), base.text, None,
                tuple(heads[:n_head]) + tuple(exp_body) + tuple(heads[n_head:]))
    before = keys('story', B.rc_of(ro))
    out = B.merge(ro, msg)
    B.hit()
    sig = None
    if out.raised:
        sig = 'raised-' + type(out.exc).__name__
    elif out.warns:
        sig = 'warned-' + '+'.join(out.cats())
    else:
        after = keys('story', B.rc_of(ro))
        if after != before:
            sig = 'wrong-position'
        else:
            el = B.rc_of(ro).findall('story')[u]
            got = B.snap(el)
            if (got[0], got[1], got[2], got[4]) != (expected[0], expected[1], expected[2], expected[4]):
                sig = 'sent-story-content-differs'
        if sig is None and B.snap(msg.xml) != msg_before:
            sig = 'message-modified'
    if B.Ctx.replay:
        B.note(sig=sig, observed=B.conc(out.exc) if out.raised else repr(B.snap(B.rc_of(ro).findall('story')[u]))[:800],
               expected=repr(expected)[:800])
    return sig is None


# ---------------------------------------------------------------------------------------
# roReplace / roMetadataReplace / roDelete / roReadyToAir
# ---------------------------------------------------------------------------------------

def base_ro(P, A, ids):
    """Running order with two mosExternalMetadata blocks of schemas a and b and other metadata."""
    c0 = A.get('c0', 'c')
    # P['story_schema']: the stories' own (nested) metadata blocks use the schema of carried block A / X
    ss = {'A': A.get('ma', 'sch.a'), 'X': A.get('mx', 'sch.x'), None: 'sch.story'}[P.get('story_schema')]
    # P['edstart'] / P['last_ended']: timestamps with or without zone designator (the running order's start and
    # the last story's explicit end need not be comparable with each other)
    stories = [B.story(s, slug='ss', timing=B.timing_block(dur='10', schema=ss,
                                                           ended=P.get('last_ended') if i == len(ids) - 1 else None),
                       body=[T('p', c0), B.item('I', slug=c0, extra=E('mosExternalMetadata', T('mosSchema', ss),
                                                                  E('mosPayload', T('inItem', c0))))])
               for i, s in enumerate(ids)]
    root = B.ro_tree(stories, lead=3, gap=P.get('gap', 0), trail=P.get('trail', 1), edstart=P.get('edstart'),
                     msg_id=A.get('mid', '1'))
    rc = root.find('roCreate')
    # the blocks already there carry attributes the replacement does not
    ma = E('mosExternalMetadata', T('mosScope', 'PLAYLIST'), T('mosSchema', A.get('ma', 'sch.a')),
           E('mosPayload', T('Owner', c0)), origin=c0)
    mb = E('mosExternalMetadata', T('mosScope', 'PLAYLIST'), T('mosSchema', A.get('mb', 'sch.b')),
           E('mosPayload', T('Owner', 'other'), E('deep', T('leaf', c0), k=c0)), origin='ncs')
    pos = P.get('meta_pos', 3)
    if P.get('n_meta', 2) >= 1:
        rc.insert(pos, ma)
    if P.get('n_meta', 2) >= 2:
        rc.insert(pos + 1 if not P.get('meta_split') else len(rc), mb)
    return B.wrap(root, B.mt.RunningOrder)


def meta_cell(P, A):
    """roMetadataReplace: C03 (stories and uncarried metadata untouched, other-schema blocks kept)
    and C04 (every carried element present with the sent content)."""
    N = P['N']
    ids = [A['s%d' % i] for i in range(N)]
    ro = base_ro(P, A, ids)
    rc = B.rc_of(ro)
    c1 = A.get('c1', 'new')
    carried = [T('roID', 'RO'), T('roSlug', c1)]
    for tag in P.get('carry', []):
        if tag == 'roEdStart':
            carried.append(T('roEdStart', c1))
        elif tag == 'roChannel':
            carried.append(T('roChannel', c1))           # exists as trailing child 'roChannel'
        elif tag == 'roTrigger':
            carried.append(T('roTrigger', c1))
        elif tag == 'fresh':
            carried.append(E('roEdDur', text=c1, k=c1))    # not in the running order
        elif tag == 'metaNone':                            # a block without any mosSchema tag
            carried.append(E('mosExternalMetadata', T('mosScope', 'PLAYLIST'), E('mosPayload', T('Owner', c1))))
        elif tag == 'metaBlank':                           # <mosSchema/>
            carried.append(E('mosExternalMetadata', T('mosScope', 'PLAYLIST'), T('mosSchema', None),
                             E('mosPayload', T('Owner', c1))))
        elif tag == 'roEdStart-text':                      # free text where a timestamp is expected
            carried.append(T('roEdStart', c1))
            carried.append(T('roChannel', c1))
        elif tag.startswith('meta'):
            which = tag[4:]                                # 'A' / 'B' / 'X' schema of the carried block
            schema = {'A': A.get('ma', 'sch.a'), 'B': A.get('mb', 'sch.b'), 'X': A.get('mx', 'sch.x')}[which]
            carried.append(E('mosExternalMetadata', T('mosScope', 'PLAYLIST'), T('mosSchema', schema),
                             E('mosPayload', T('Owner', c1), T('Extra', c1))))
    msg = M.metadata_replace(carried[1:])   # message() supplies the roID itself
    sent = [B.snap(e) for e in msg.base_tag]
    sent_tags = [e.tag for e in msg.base_tag]
    sent_schema = [(e.find('mosSchema').text if e.find('mosSchema') is not None else None)
                   if e.tag == 'mosExternalMetadata' else None for e in msg.base_tag]
    before = list(rc)
    snaps = [B.snap(c) for c in before]
    env = [B.snap(c) for c in ro.xml if c.tag != 'roCreate']
    whole = B.snap(ro.xml)
    out = B.merge(ro, msg)
    B.hit()
    sig = None
    prop = P['prop']
    rc2 = B.rc_of(ro)
    if prop == 'atomic':
        # whatever the message carries: if the merge raises, nothing has changed
        if out.raised and B.snap(ro.xml) != whole:
            sig = 'changed-before-raising-' + type(out.exc).__name__
    elif prop == 'exc':
        from mosromgr.exc import MosMergeError as _MME
        if out.raised and not isinstance(out.exc, _MME):
            sig = 'escaped-' + type(out.exc).__name__
    elif out.raised:
        sig = 'raised-' + type(out.exc).__name__
    elif prop == 'frame':
        def same_schema(el, sch):
            t = el.find('mosSchema')
            if sch is None:
                return t is None or t.text is None
            return t is not None and (t.text is sch or t.text == sch)
        affected = []
        for b in before:
            if b.tag == 'story':
                continue
            if b.tag == 'mosExternalMetadata':
                if any(tg == 'mosExternalMetadata' and same_schema(b, sc) for tg, sc in zip(sent_tags, sent_schema)):
                    affected.append(b)
            elif b.tag in sent_tags:
                affected.append(b)
        sig = frame_ok(before, snaps, list(rc2), affected, [])
        if sig is None and [B.snap(c) for c in ro.xml if c.tag != 'roCreate'] != env:
            sig = 'envelope-altered'
    elif prop == 'payload':
        after = list(rc2)
        for s, tg, sc in zip(sent, sent_tags, sent_schema):
            hits = [a for a in after if a.tag == tg and B.snap(a) == s]
            if len(hits) != 1:
                sig = 'carried-metadata-missing-or-duplicated'
                break
            # a replaced tag must not survive next to the new one
            if tg != 'mosExternalMetadata' and len([a for a in after if a.tag == tg]) != 1:
                sig = 'old-value-survives'
                break
            if tg == 'mosExternalMetadata' and sc is not None:
                same = [a for a in after if a.tag == tg and a.find('mosSchema') is not None
                        and (a.find('mosSchema').text is sc or a.find('mosSchema').text == sc)]
                if len(same) != 1:
                    sig = 'old-block-of-same-schema-survives'
                    break
    elif prop == 'envelope':
        sig = envelope_ok(ro, ro.xml.find('messageID').text, rc2.find('roID').text)
        if sig is None and rc2.find('roID').text != 'RO':
            sig = 'roID-changed'
    if B.Ctx.replay:
        B.note(sig=sig, observed=B.conc(out.exc) if out.raised else [c.tag for c in rc2],
               expected=prop, warnings=out.cats())
    return sig is None


def replace_cell(P, A):
    """roReplace: running-order content equals the sent one (tag renamed), envelope kept."""
    N = P['N']
    ids = [A['s%d' % i] for i in range(N)]
    ro = base_ro(P, A, ids)
    c1 = A['c1']
    k = P.get('k', 2)
    new_ids = [A['n%d' % i] for i in range(k)]
    if P.get('repeat_id'):
        new_ids = new_ids + [new_ids[0]]      # the replacement repeats a story ID: it is applied as sent, silently
    kids = [T('roSlug', c1), T('roEdStart', None),
            E('mosExternalMetadata', T('mosSchema', c1), E('mosPayload', T('Owner', c1)))]
    kids += [E('story', T('storyID', n), T('storySlug', c1), E('item', T('itemID', c1), x=c1), E('p', text=c1, tail=c1))
             for n in new_ids]
    if P.get('base_attrs'):
        # attributes on the two base elements themselves: the running order's go, the message's arrive
        B.rc_of(ro).set('origin', 'first-transmission')
        msg = M.ro_replace(kids, version=c1, changed='yes')
    else:
        msg = M.ro_replace(kids)
    sent = B.snap(msg.base_tag)
    msg_before = B.snap(msg.xml)
    env = [B.snap(c) for c in ro.xml if c.tag != 'roCreate']
    env_order = [c.tag for c in ro.xml]
    mid = ro.xml.find('messageID').text
    out = B.merge(ro, msg)
    B.hit()
    sig = None
    if out.raised:
        sig = 'raised-' + type(out.exc).__name__
    else:
        sig = envelope_ok(ro, mid, 'RO')
        rc = B.rc_of(ro)
        got = B.snap(rc)
        if sig is None and (got[1], got[2], got[4]) != (sent[1], sent[2], sent[4]):
            sig = 'content-differs-from-sent'
        if sig is None and [B.snap(c) for c in ro.xml if c.tag != 'roCreate'] != env:
            sig = 'envelope-altered'
        if sig is None and [c.tag for c in ro.xml] != env_order:
            sig = 'envelope-reordered'
        if sig is None and B.snap(msg.xml) != msg_before:
            sig = 'message-modified'
        if sig is None and keys('story', rc) != new_ids:
            sig = 'stories-differ'
        if sig is None and ro.completed:
            sig = 'completed'
        if sig is None and out.warns and P.get('no_warn'):
            sig = 'warned-' + '+'.join(out.cats())     # fully applied: no mosromgr warning (C06 only)
    if B.Ctx.replay:
        B.note(sig=sig, observed=B.conc(out.exc) if out.raised else repr(B.snap(B.rc_of(ro)))[:600],
               expected=repr(sent)[:600])
    return sig is None


def inert_cell(P, A):
    """roDelete (C07a): completed, record holds the roDelete element, roCreate untouched.
    roReadyToAir (C03): the whole document is untouched."""
    N = P['N']
    ids = [A['s%d' % i] for i in range(N)]
    ro = base_ro(P, A, ids)
    rc_snap = B.snap(B.rc_of(ro))
    root_snap = B.snap(ro.xml)
    mid = ro.xml.find('messageID').text
    if P['op'] == 'roDelete':
        # the roDelete's own roID text is free (padded, stale after a roReplace, ...): completion does not
        # depend on it
        msg = M.ro_delete(msg_id=A.get('mid2', '9'), ro_id=A['rd'] if 'rd' in A else 'RO')
        sent = B.snap(msg.base_tag)
    else:
        msg = M.ready_to_air()
    was_completed = ro.completed
    out = B.merge(ro, msg)
    B.hit()
    if P.get('twice'):
        # a second roDelete (same or different roID, blank roID): refused or not, never a second record
        o2 = B.merge(ro, M.ro_delete(msg_id='77', ro_id={'same': 'RO', 'blank': None, 'free': A.get('rd2')}[P['twice']]))
        if len(ro.xml.findall('mosromgrmeta')) != 1:
            B.note(sig='completion-records-%d' % len(ro.xml.findall('mosromgrmeta')), observed=[c.tag for c in ro.xml])
            return False
        if not (o2.raised and type(o2.exc).__name__ == 'MosCompletedMergeError'):
            B.note(sig='second-roDelete-not-refused', observed=B.conc(o2.exc))
            return False
    sig = None
    if P.get('prop') == 'atomic':
        # C05 reading of the same scenario: whatever the message is refused for, a raise changes nothing
        if out.raised and B.snap(ro.xml) != root_snap:
            sig = 'changed-before-raising-' + type(out.exc).__name__
    elif P.get('prop') == 'exc':
        from mosromgr.exc import MosMergeError as _MME
        if out.raised and not isinstance(out.exc, _MME):
            sig = 'escaped-' + type(out.exc).__name__
    elif out.raised:
        sig = 'raised-' + type(out.exc).__name__
    elif out.warns:
        sig = 'warned'
    elif P['op'] == 'roDelete':
        meta = ro.xml.findall('mosromgrmeta')
        if was_completed:
            sig = 'was-completed-before'
        elif not ro.completed:
            sig = 'not-completed'
        elif len(meta) != 1 or len(meta[0].findall('roDelete')) != 1:
            sig = 'no-single-completion-record'
        elif B.snap(meta[0].find('roDelete'))[:3] + (B.snap(meta[0].find('roDelete'))[4],) != sent[:3] + (sent[4],):
            sig = 'record-differs-from-roDelete'
        elif B.snap(B.rc_of(ro)) != rc_snap:
            sig = 'content-changed'
        else:
            sig = envelope_ok(ro, mid, 'RO')
    else:
        if B.snap(ro.xml) != root_snap:
            sig = 'document-changed'
        elif ro.completed:
            sig = 'completed-without-roDelete'
    if B.Ctx.replay:
        B.note(sig=sig, observed=B.conc(out.exc) if out.raised else [c.tag for c in ro.xml], expected=P['op'])
    return sig is None
