"""C17 - script and body list the story text and items faithfully and in order."""
from .cells import Cell

PID = 'C17'
ASSUMPTIONS = [
    'paragraph texts are solver variables of 0..3 characters (thorough: 0..4) over tab, newline, '
    'printable ASCII and U+00A0..U+00FF (so whitespace-only, bracketed, half-bracketed and non-ASCII '
    'texts are all inside); paragraphs with inline child elements are outside the claim',
    'story IDs are concrete here (no hash stub needed)',
]


def bounds(tier):
    return {'paragraph_len': '0..3' if tier == 'quick' else '0..4', 'symbolic_paragraphs_per_cell': '<=3',
            'stories': '1..2', 'layouts': 'p/n/i/o interleavings of length <= 5'}


CH = "chr(9) + chr(10) + ' -~' + chr(160) + '-' + chr(255)"


def mk(layout, maxlen=3, send=None, T=60, example=None, **extra):
    np_ = sum(l.count('p') for l in layout)
    P = {'layout': list(layout), 'send': send}
    P.update(extra)
    sym = [('q%d' % i, 'str') for i in range(np_)]
    pre = ["re.fullmatch('[' + %s + ']{0,%d}', q%d)" % (CH, maxlen, i) for i in range(np_)]
    cid = 'C17/%s/len%d%s' % ('|'.join(layout), maxlen, '/via-roStorySend' if send is not None else '')
    for key, v in extra.items():
        cid += '/%s-%s' % (key, v)
    # anchors: combining characters (a normalisation would change them), no-break and ideographic spaces
    exs = ['e\u0301te\u0301 \u212b', '\u3000(a)\u2003', '<c', '', '\U0001F600', '&lt;VT&gt;', 'R&D &amp; &copy &#233;', '\U0001F600 (x) \U00020000']
    off = sum(map(ord, cid)) % len(exs)
    ex = example or {'q%d' % i: exs[(off + i) % len(exs)] for i in range(np_)}
    return Cell(pid=PID, cid=cid, harness='h_access:script_cell', params=P, sym=sym, pre=pre,
                stubs=(), timeout=T, cost=np_ * 10, example=ex)


def cells(tier):
    T = 60 if tier == 'quick' else 600
    L = 3 if tier == 'quick' else 4
    out = []
    # exactly one solver-chosen paragraph per cell (the code treats paragraphs independently; forks
    # multiply with every further symbolic text), surrounded by concrete neighbours:
    # a plain, b '(note)', w whitespace, h '(half', u non-ASCII, g '<gfx>', r 'right)', n None
    for lay in (['p'], ['pi'], ['ip'], ['anp'], ['ipoib'], ['nipw'], ['opi'], ['a', 'p'], ['pi', 'nb'],
                ['ipi', 'o'], ['', 'p'], ['hpu'], ['gia', 'p'], ['bwp', 'ru'], ['uiphia', 'bn']):
        out.append(mk(lay, maxlen=L, T=T))
    out.append(mk(['p'], maxlen=L + 1, T=T))
    # half-bracketed lines around the paragraph are ordinary lines, whatever comes between or after them; texts that
    # spell entities / character references literally (e, E) are ordinary text too
    for lay in (['hpr'], ['hapr'], ['HpR', 'ha'], ['Hap', 'R'], ['epE'], ['rph']):
        out.append(mk(lay, maxlen=L, T=T))
    out.append(mk(['hpr'], maxlen=L, send=0, T=T))
    out.append(mk(['eipE', 'a'], maxlen=L, send=0, T=T))
    out.append(mk(['abwhugrn', 'nrguhwba'], maxlen=L, T=T))   # concrete only: order and concatenation
    for lay, send in ((['pi'], 0), (['ip', 'a'], 0), (['b', 'nipo'], 1), (['aib', 'u'], 0)):
        out.append(mk(lay, maxlen=L, send=send, T=T))
    # stories that share an ID or have a blank one; items of a sent body that share an ID
    out.append(mk(['pa', 'bia'], maxlen=L, T=T, story_ids='dup'))
    out.append(mk(['ai', 'p'], maxlen=L, T=T, story_ids='blank'))
    out.append(mk(['ipia', 'u'], maxlen=L, send=0, T=T, same_item_ids=True))
    out.append(mk(['iipi'], maxlen=L, T=T, same_item_ids=True))
    return out
