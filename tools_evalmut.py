#!/usr/bin/env python3
"""Evaluate a seeded change: confirm it (tests still pass, demo fails with / passes without), then run
the given property checks against a scratch worktree carrying the patch (VERIF_REPO), and report
which checks catch it.   usage: tools_evalmut.py <dir with patch.diff demo.py> <PID> [<PID> ...]"""
import json
import os
import re
import shutil
import subprocess
import sys
import tempfile

HERE = os.path.dirname(os.path.abspath(__file__))


def sh(cmd, **kw):
    return subprocess.run(cmd, shell=True, capture_output=True, text=True, **kw)


def main():
    mdir = os.path.abspath(sys.argv[1])
    pids = sys.argv[2:]
    tier = os.environ.get('VERIF_TIER', 'quick')
    wt = tempfile.mkdtemp(prefix='evmut_', dir='/tmp')
    os.rmdir(wt)
    res = {'dir': mdir, 'checks': {}}
    try:
        r = sh('git -C /repo worktree add -f --detach %s HEAD' % wt)
        assert r.returncode == 0, r.stderr
        env = 'cd %s && PYTHONPATH=%s PYTHONDONTWRITEBYTECODE=1' % (wt, wt)
        demo = os.path.join(mdir, 'demo.py')
        r0 = sh('%s /venv/bin/python %s' % (env, demo))
        res['demo_without_patch'] = r0.returncode
        r = sh('git -C %s apply %s' % (wt, os.path.join(mdir, 'patch.diff')))
        if r.returncode != 0:
            r = sh('git -C %s apply -3 %s' % (wt, os.path.join(mdir, 'patch.diff')))
        res['applies'] = r.returncode == 0
        if not res['applies']:
            res['apply_error'] = r.stderr[-500:]
            print(json.dumps(res, indent=1))
            return 2
        r1 = sh('%s /venv/bin/python %s' % (env, demo))
        res['demo_with_patch'] = r1.returncode
        res['demo_output'] = (r1.stdout + r1.stderr)[-600:]
        rt = sh('%s /venv/bin/python -m pytest -q -p no:cacheprovider tests 2>&1 | tail -1' % env)
        res['tests'] = rt.stdout.strip()
        for pid in pids:
            rc = sh('VERIF_REPO=%s VERIF_TIER=%s %s/bin/vcheck %s --tier %s' % (wt, tier, HERE, pid, tier))
            viol = [l for l in rc.stdout.splitlines() if l.startswith('VIOLATION')]
            cells = [l.strip() for l in rc.stdout.splitlines() if l.strip().startswith('cell=')]
            summ = [l for l in rc.stdout.splitlines() if l.startswith('SUMMARY')]
            res['checks'][pid] = {'exit': rc.returncode, 'violations': len(viol), 'first_cells': cells[:3],
                                  'inconclusive': len([l for l in rc.stdout.splitlines() if l.startswith('INCONCLUSIVE')]),
                                  'spurious': len([l for l in rc.stdout.splitlines() if l.startswith('SPURIOUS')]),
                                  'harness_errors': len([l for l in rc.stdout.splitlines() if l.startswith('HARNESS-ERROR')]),
                                  'summary': summ[-1] if summ else rc.stdout[-300:] + rc.stderr[-300:]}
        res['caught_by'] = [p for p, c in res['checks'].items() if c['exit'] == 1 and c['violations']]
    finally:
        sh('git -C /repo worktree remove --force %s' % wt)
        shutil.rmtree(wt, ignore_errors=True)
    print(json.dumps(res, indent=1))
    return 0


if __name__ == '__main__':
    sys.exit(main())
