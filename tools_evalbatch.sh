#!/bin/bash
# usage: tools_evalbatch.sh <outdir> <mutdir>:<PID,PID..> ...   (evaluates seeded changes one after the other)
OUT=$1; shift
mkdir -p "$OUT"
HERE="$(cd "$(dirname "$0")" && pwd)"
"$HERE/bin/setup"
for spec in "$@"; do
  d=${spec%%:*}; pids=${spec##*:}
  case "$d" in
    *seeded/*) name=$(basename "$d") ;;
    *) name=$(echo "$d" | sed 's#/tmp/mut[0-9]*/##; s#/out/#_#; s#/#_#g') ;;
  esac
  if [ -s "$OUT/$name.json" ] && /venv/bin/python -c "import json,sys; json.load(open(sys.argv[1]))" "$OUT/$name.json" 2>/dev/null; then
    echo "skip $name (already evaluated)"
  else
    /venv/bin/python "$HERE/tools_evalmut.py" "$d" ${pids//,/ } > "$OUT/$name.json.tmp" 2>&1
    mv "$OUT/$name.json.tmp" "$OUT/$name.json"
  fi
  /venv/bin/python - "$OUT/$name.json" <<'PY'
import json,sys
try:
    r=json.load(open(sys.argv[1]))
    print(r['dir'], 'applies',r.get('applies'),'demo',r.get('demo_without_patch'),'->',r.get('demo_with_patch'), r.get('tests'), 'CAUGHT_BY',r.get('caught_by'))
    for p,c in r['checks'].items(): print('    ',p,'viol',c['violations'],'inconc',c['inconclusive'],'spur',c['spurious'],'herr',c['harness_errors'], c['first_cells'][:1])
except Exception as e:
    print('ERR', sys.argv[1], e)
PY
done
