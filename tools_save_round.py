"""Copy the seeded changes of a round (scratch dirs) into seeded/<property>-<n>/ with meta.json built from the evaluation results."""
import json, os, shutil, sys
rnd, base, first = int(sys.argv[1]), sys.argv[2], int(sys.argv[3])      # e.g. 4 /tmp/mut4 10
ORD = {4: 'fourth', 5: 'fifth', 6: 'sixth'}[rnd]
KS = tuple(int(x) for x in sys.argv[4].split(',')) if len(sys.argv) > 4 else (1, 2, 3)
for i in range(1, 21):
    p = 'C%02d' % i
    for k in KS:
        src = '%s/%s/out/%d' % (base, p, k)
        if not os.path.exists(src + '/patch.diff') or not os.path.exists('%s/results1/%s_%d.json' % (base, p, k)):
            print('skip', src); continue
        dst = '/verif/seeded/%s-%d' % (p, first + k - 1)
        os.makedirs(dst, exist_ok=True)
        shutil.copy(src + '/patch.diff', dst + '/patch.diff')
        shutil.copy(src + '/demo.py', dst + '/demo.py')
        m = json.load(open(src + '/meta.json'))
        r1 = json.load(open('%s/results1/%s_%d.json' % (base, p, k)))
        r2f = '%s/results2/%s_%d.json' % (base, p, k)
        r2 = json.load(open(r2f)) if os.path.exists(r2f) else None
        extra = {}
        xf = '%s/results3/%s_%d.json' % (base, p, k)
        if os.path.exists(xf):
            r2 = json.load(open(xf))
        meta = {'property': p, 'round': rnd, 'summary': m.get('summary'), 'needs': m.get('needs'), 'files': m.get('files'),
                'origin': 'written by a fresh sub-agent (%s round) that saw only the property text, its own scratch worktree of /repo '
                          'and a list of ideas already used in earlier rounds to avoid (nothing from /verif)' % ORD,
                'confirmed': {'existing_test_suite_with_patch': (r2 or r1).get('tests'), 'demo_exit_without_patch': (r2 or r1).get('demo_without_patch'),
                              'demo_exit_with_patch': (r2 or r1).get('demo_with_patch')},
                'ran': ["git worktree add --detach <scratch> HEAD (of /repo); git -C <scratch> apply patch.diff",
                        "cd <scratch> && PYTHONPATH=<scratch> /venv/bin/python -m pytest -q -p no:cacheprovider tests",
                        "cd <scratch> && PYTHONPATH=<scratch> /venv/bin/python demo.py   (with and without the patch)",
                        "VERIF_REPO=<scratch> ./bin/vcheck <property> --tier quick   (tools_evalmut.py)"],
                'caught_at_first_sight_by': r1.get('caught_by') or [],
                'caught_by': (r2.get('caught_by') if r2 else 'not re-evaluated after the extensions'),
                'first_witness': {pp: c['first_cells'][:1] for pp, c in (r2 or r1)['checks'].items() if c['violations']}}
        old = dst + '/meta.json'
        if os.path.exists(old):
            o = json.load(open(old))
            if o.get('note'):
                meta['note'] = o['note']
        json.dump(meta, open(old, 'w'), indent=1)
print('saved round', rnd)
